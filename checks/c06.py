"""C06: cached replies are never served after their invalidation; every hit is the reply to exactly that command."""
import concurrent.futures
from checks import cachecommon as cc
LEVEL = 'model_checking'


def run(ctx):
    th = ctx.tier == 'thorough'
    with concurrent.futures.ThreadPoolExecutor(2) as ex:
        fm = ex.submit(models, ctx, th)
        real(ctx, th)
        fm.result()
    ctx.assumptions += cc.ASSUMPTIONS
    ctx.exhaustive = False


def models(ctx, th):
    jobs = [('MC_quick_c06.cfg', None), ('MC_quick_c06_bcast.cfg', None), ('MC_quick_c06_optout.cfg', None),
            ('MC_quick_c06_cut.cfg', None), ('MC_quick_c06_exp.cfg', None),
            # non-vacuity: flush invalidations skipped; an invalidation overtaking the reply before it
            ('MC_neg_flush.cfg', 'NoStaleHit'), ('MC_neg_reorder.cfg', 'NoStaleHit'),
            # round 2: several commands per key (a purge that stops at a pending entry leaves stale completed ones);
            # Redis 6: invalidations embedded in array replies (consumed but not applied)
            ('MC_quick_c06_cmds.cfg', None), ('MC_neg_purgestop.cfg', 'NoStaleHit'),
            ('MC_quick_c06_r6.cfg', None), ('MC_neg_skipemb.cfg', 'NoStaleHit'),
            # the store-level model of NewSimpleCacheAdapter (store family, spec/cache/Adapter.tla) without the re-check of the
            # SimpleCache in the second critical section of Flight: a flight is registered over a value that can still be served
            ('MCA_neg_norecheck.cfg', 'NoFlightOverFreshValue', 'cache', 'Adapter')]
    if th:
        jobs += [('MC_thorough_c06.cfg', None), ('MC_thorough_cut.cfg', None), ('MC_neg_purge.cfg', 'NoLostWaiter'),
                 ('MC_thorough_r6.cfg', None)]
    cc.model(ctx, jobs, workers=(6 if th else 2), par=(3 if th else 4), timeout=(3000 if th else 900))


def real(ctx, th):
    R = cc.Runner(ctx)
    try:
        n = 1500 if th else 200
        with concurrent.futures.ThreadPoolExecutor(8) as ex:
            g = {m: ex.submit(cc.generate, ctx, 'Gen_%s.cfg' % m, 'gen-' + m, simulate=(n if m == 'optin' else n // 2))
                 for m in ('optin', 'bcast', 'optout', 'cut', 'expire')}
            fp = ex.submit(cc.purge_cases, ctx)     # the scripted products of round 2
            f6 = ex.submit(cc.r6_cases, ctx)
            fa = ex.submit(cc.race_cases, ctx)
            # thorough: simulated behaviours with three commands per key / on the Redis 6 server (few per thousand
            # show the flagged situation, which is why the quick tier relies on the products)
            fc = ex.submit(cc.generate, ctx, 'Gen_cmds.cfg', 'gen-cmds', simulate=n) if th else None
            fr = ex.submit(cc.generate, ctx, 'Gen_r6.cfg', 'gen-r6', simulate=n) if th else None
            gen = {m: [c for c in f.result() if cc.interesting(c)] for m, f in g.items()}
            purge, r6, cmds3, r6sim = fp.result(), f6.result(), (fc.result() if fc else []), (fr.result() if fr else [])
            race = fa.result()
        TEN = '"g", "h", "i", "j", "k", "l", "m", "n", "o", "p"' 
        cap = (lambda cs, k: cs) if th else (lambda cs, k: cs[:k])
        mr = None if th else 12
        nofail = [c for c in gen['optin'] if not any(s.get('fail') for s in c['steps'])]
        plan = [
            (cap(gen['optin'], 60), 'gen-optin', dict(tmode='optin', store='lru')),
            (cap(gen['optin'], 60), 'gen-optin', dict(tmode='optin', store='adapter')),
            (cap(gen['bcast'], 30), 'gen-bcast', dict(tmode='bcast', store='lru')),
            (cap(gen['bcast'], 30), 'gen-bcast', dict(tmode='bcast', store='adapter')),
            (cap(gen['optout'], 30), 'gen-optout', dict(tmode='optout', store='adapter')),
            (cap(gen['optout'], 30), 'gen-optout', dict(tmode='optout', store='lru')),
            (cap(gen['optin'], 30), 'gen-optin', dict(tmode='optin', store='lru', flavor='json')),
            (cap(nofail, 30), 'gen-optin', dict(tmode='optin', store='lru', flavor='static')),
            (cap(gen['cut'], 30), 'gen-cut', dict(tmode='optin', store='lru')),
            (cap(gen['cut'], 30), 'gen-cut', dict(tmode='optin', store='adapter')),
            (cap(gen['expire'], 16), 'gen-expire', dict(tmode='optin', store='lru')),
            (cap(gen['expire'], 16), 'gen-expire', dict(tmode='optin', store='adapter')),
            # an invalidation meets a key cached under 3 / 10 commands, some of them in flight (CachePurge.tla)
            (purge, 'purge', dict(store='lru', cmds=TEN, maxf=20)),
            (purge, 'purge', dict(store='adapter', cmds=TEN, maxf=20)),
            # Redis 6: invalidations embedded in the EXEC reply (CacheR6.tla, cachedrv -mode redis6)
            (r6, 'r6', dict(store='lru', redis6=True)),
            (r6, 'r6', dict(store='adapter', redis6=True)),
            # a call delayed between the look-up and the registration of its Flight (CacheRace.tla; the regression test of
            # "fix: adapter.Flight must look at the SimpleCache again before it registers a flight")
            (race, 'race', dict(store='lru')),
            (race, 'race', dict(store='adapter')),
            (cmds3, 'gen-cmds', dict(store='lru')),
            (r6sim, 'gen-r6', dict(store='lru', redis6=True)),
        ]
        with concurrent.futures.ThreadPoolExecutor(4) as ex:
            list(ex.map(lambda p: R.scen(p[0], p[1], max_runs=mr, par=6, **p[2]), plan))
        rr = 40 if th else 4
        rplan = [dict(tmode='optin', store='lru'), dict(tmode='bcast', store='adapter'), dict(tmode='optout', store='lru')]
        if th:
            rplan += [dict(tmode='optin', store='adapter', flavor='json'), dict(tmode='optin', store='lru', flavor='static'), dict(tmode='bcast', store='lru', api='helper')]
        with concurrent.futures.ThreadPoolExecutor(3) as ex:
            list(ex.map(lambda kw: R.random(rr, **kw), rplan))
        R.validate(par=4)
    finally:
        R.close()
