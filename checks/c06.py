"""C06: cached replies are never served after their invalidation; every hit is the reply to exactly that command."""
import concurrent.futures
from checks import cachecommon as cc
LEVEL = 'model_checking'


def run(ctx):
    th = ctx.tier == 'thorough'
    with concurrent.futures.ThreadPoolExecutor(2) as ex:
        fm = ex.submit(models, ctx, th)
        real(ctx, th)
        fm.result()
    ctx.assumptions += cc.ASSUMPTIONS
    ctx.exhaustive = False


def models(ctx, th):
    jobs = [('MC_quick_c06.cfg', None), ('MC_quick_c06_bcast.cfg', None), ('MC_quick_c06_optout.cfg', None),
            ('MC_quick_c06_cut.cfg', None), ('MC_quick_c06_exp.cfg', None),
            # non-vacuity: flush invalidations skipped; an invalidation overtaking the reply before it
            ('MC_neg_flush.cfg', 'NoStaleHit'), ('MC_neg_reorder.cfg', 'NoStaleHit')]
    if th:
        jobs += [('MC_thorough_c06.cfg', None), ('MC_thorough_cut.cfg', None), ('MC_neg_purge.cfg', 'NoLostWaiter')]
    cc.model(ctx, jobs, workers=(6 if th else 2), par=(3 if th else 4), timeout=(3000 if th else 900))


def real(ctx, th):
    R = cc.Runner(ctx)
    try:
        n = 1500 if th else 200
        with concurrent.futures.ThreadPoolExecutor(5) as ex:
            g = {m: ex.submit(cc.generate, ctx, 'Gen_%s.cfg' % m, 'gen-' + m, simulate=(n if m == 'optin' else n // 2))
                 for m in ('optin', 'bcast', 'optout', 'cut', 'expire')}
            gen = {m: [c for c in f.result() if cc.interesting(c)] for m, f in g.items()}
        cap = (lambda cs, k: cs) if th else (lambda cs, k: cs[:k])
        mr = None if th else 12
        nofail = [c for c in gen['optin'] if not any(s.get('fail') for s in c['steps'])]
        plan = [
            (cap(gen['optin'], 60), 'gen-optin', dict(tmode='optin', store='lru')),
            (cap(gen['optin'], 60), 'gen-optin', dict(tmode='optin', store='adapter')),
            (cap(gen['bcast'], 30), 'gen-bcast', dict(tmode='bcast', store='lru')),
            (cap(gen['bcast'], 30), 'gen-bcast', dict(tmode='bcast', store='adapter')),
            (cap(gen['optout'], 30), 'gen-optout', dict(tmode='optout', store='adapter')),
            (cap(gen['optout'], 30), 'gen-optout', dict(tmode='optout', store='lru')),
            (cap(gen['optin'], 30), 'gen-optin', dict(tmode='optin', store='lru', flavor='json')),
            (cap(nofail, 30), 'gen-optin', dict(tmode='optin', store='lru', flavor='static')),
            (cap(gen['cut'], 30), 'gen-cut', dict(tmode='optin', store='lru')),
            (cap(gen['cut'], 30), 'gen-cut', dict(tmode='optin', store='adapter')),
            (cap(gen['expire'], 16), 'gen-expire', dict(tmode='optin', store='lru')),
            (cap(gen['expire'], 16), 'gen-expire', dict(tmode='optin', store='adapter')),
        ]
        with concurrent.futures.ThreadPoolExecutor(4) as ex:
            list(ex.map(lambda p: R.scen(p[0], p[1], max_runs=mr, par=6, **p[2]), plan))
        rr = 40 if th else 4
        rplan = [dict(tmode='optin', store='lru'), dict(tmode='bcast', store='adapter'), dict(tmode='optout', store='lru')]
        if th:
            rplan += [dict(tmode='optin', store='adapter', flavor='json'), dict(tmode='optin', store='lru', flavor='static'), dict(tmode='bcast', store='lru', api='helper')]
        with concurrent.futures.ThreadPoolExecutor(3) as ex:
            list(ex.map(lambda kw: R.random(rr, **kw), rplan))
        R.validate(par=4)
    finally:
        R.close()
