"""Shared by c34.py and c39.py: validation of concatenated scenario traces (RESET ... End) by a trace specification that
prints the violated properties of each scenario at its End record (<<"BAD", position, {names}>>) and is accepted by a
POSTCONDITION; a rejected scenario is reported and validation resumes behind it."""
import json, os, re
from lib import vlib

FAMILY = 'addons'


def validate(ctx, module, cfg, prefix, tracefile, index):
    """Returns ({scenario number: set(property names)}, events)."""
    events = [json.loads(l) for l in open(tracefile)]
    verdicts, accepted = {}, 0
    start = 0                      # first scenario (index into `index`) of the part still to validate
    for _ in range(6):
        if start >= len(index):
            break
        first = index[start]['first']
        part = tracefile if start == 0 else tracefile + '.part'
        if start:
            vlib.write_ndjson(part, events[first - 1:])
        r = vlib.tlc(FAMILY, module, cfg, workers=1, timeout=900, env={'VERIF_TRACE': part})
        ctx.tlc_runs.append(dict(r.summary(), trace_events=len(events) - first + 1))
        ctx.states += r.distinct
        ctx.transitions += r.generated
        for m in re.finditer(r'<<"BAD", (\d+), \{([^}]*)\}>>', r.output):
            pos = int(m.group(1)) + first - 1
            verdicts.setdefault(pos, set()).update(p.strip().strip('"') for p in m.group(2).split(','))
        if r.ok:
            accepted += len(index) - start
            break
        m = re.search(r'"REJECTED-AT",\s*(\d+),\s*\[(.*?)\]\s*>>', r.output, re.S)
        if not m:
            ctx.inconclusive.append('trace validation failed to run: %s\n%s' % (r.error, r.output[-2000:]))
            break
        pos = int(m.group(1)) + first - 1
        j = next((n for n, e in enumerate(index) if e['first'] <= pos <= e['last']), None)
        if j is None:
            ctx.inconclusive.append('rejected position %d outside every scenario' % pos)
            break
        ev = events[pos - 1]
        keep = os.path.join(vlib.VERIF, 'replays', ctx.pid)
        os.makedirs(keep, exist_ok=True)
        dst = os.path.join(keep, 'rejected-%s.ndjson' % index[j]['scenario']['id'])
        vlib.write_ndjson(dst, events[index[j]['first'] - 1:index[j]['last']])
        ctx.violation('%s-trace-rejected-at-%s' % (prefix, ev['ev']),
                      '%s.tla has no action for recorded event #%d of scenario %s: %s' % (
                          module, pos - index[j]['first'] + 1, index[j]['scenario']['id'], json.dumps(ev)),
                      dict(trace=dst, scenario=index[j]['scenario']))
        accepted += j - start
        start = j + 1
    ctx.traces += accepted
    out = {}
    for pos, props in verdicts.items():
        j = next((n for n, e in enumerate(index) if e['first'] <= pos <= e['last']), None)
        if j is not None:
            out.setdefault(j, set()).update(props)
    return out, events


def keep_trace(ctx, name, evs):
    keep = os.path.join(vlib.VERIF, 'replays', ctx.pid)
    os.makedirs(keep, exist_ok=True)
    dst = os.path.join(keep, name)
    vlib.write_ndjson(dst, evs)
    return dst
