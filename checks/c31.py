"""C31 - multi-key helpers map every key to its own reply (single client and cluster client)."""
from checks import clustercommon as cc
LEVEL = 'model_checking'


def run(ctx):
    th = ctx.tier == 'thorough'
    # on a cluster the helpers rest on the positional results of DoMulti / DoMultiCache: BatchOrder of Cluster.tla, and the
    # "results re-assembled by node order" defect that breaks it in the model
    cc.model(ctx, ['MC_cluster_batch.cfg'] if th else [], {'MC_cluster_neg_order.cfg': 'BatchOrder'})
    # HelperMap: TLC enumerates key lists x key states x helper x client with the expected map; the real helpers run against the stores
    cc.cases(ctx, 'ClusterHelpers', ['Helpers_thorough.cfg' if th else 'Helpers_quick.cfg'], 'helpers')
    ctx.assumptions += ['single and cluster clients only (the standalone and sentinel clients take the same code path as the single client in helper.go)']
    ctx.exhaustive = True    # every TLC-generated case of the configured bound is replayed
