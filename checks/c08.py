"""C08 cache identity: CacheKey.tla (transcription of cmds.CacheKey / the adapter key, Injective) -> real builders,
cmds.CacheKey, and DoCache end to end against fakeredis for every colliding pair, both stores."""
from checks import purecommon as pc
LEVEL = 'exploration'


def run(ctx):
    th = ctx.tier == 'thorough'
    # the identity as coded is not injective (TLC finds the colliding pairs: code_lru / code_adapter) and an identity
    # that keeps the argument structure is, on the same bound (sep)
    cases = pc.run_tlc_jobs(ctx,
        pc.generate('CacheKey', 'CacheKey_gen_thorough.cfg' if th else 'CacheKey_gen_quick.cfg', timeout=3000, min_cases=500),
        pc.negative('CacheKey', 'CacheKey_code_lru.cfg', 'InjectiveLru'),
        pc.negative('CacheKey', 'CacheKey_code_adapter.cfg', 'InjectiveAdapter'),
        pc.model('CacheKey', 'CacheKey_sep.cfg'))[0]
    if cases is None:
        return
    pc.drive(ctx, 'cachekey', cases, timeout=3000)
    ctx.exhaustive = False
    ctx.assumptions += ['commands over the alphabet {1,2} plus command-name tokens in the key tail / first argument (CacheKey.tla Cmds)',
                        'a pair is executed on keys with a per-pair prefix (same prefix on both keys, so the identities keep their structure); '
                        'pairs whose two uncached replies are equal on the test data, or whose first command is answered with an error, cannot be decided and are counted, not reported']
