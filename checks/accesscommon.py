"""C15 / C16: spec/data/Accessors.tla is the exhaustive case generator and the oracle; harness/cmd/accessdrv replays every
TLC-generated case into the real decoder + accessors of redis/rueidis and compares with the predicted outcome."""
import os, tempfile
from lib import vlib

# every state of Accessors.tla is an initial state (TLC computes those serially), so more workers buy nothing;
# CASE records must not interleave, hence -workers 1
TLC_TIMEOUT = 2400


def generate(ctx, cfg):
    r = ctx.run_tlc('data', 'Accessors', cfg, workers=1, timeout=TLC_TIMEOUT, collect_cases=True)
    if r.ok and len(r.cases) != r.distinct:
        ctx.inconclusive.append('%s: TLC found %d distinct cases but printed %d CASE records' % (cfg, r.distinct, len(r.cases)))
    return r


def negative(ctx, cfg, inv):
    ctx.run_tlc('data', 'Accessors', cfg, expect_violation=inv, workers=1, timeout=TLC_TIMEOUT)


def replay(ctx, r):
    if not r.cases:
        return None
    binp = vlib.build('accessdrv')
    fd, path = tempfile.mkstemp(prefix='verif-access-', suffix='.ndjson', dir=vlib.SCRATCH_ROOT)
    os.close(fd)
    try:
        vlib.write_ndjson(path, r.cases)
        rep = ctx.run_driver(binp, ['-cases', path], timeout=1800)
    finally:
        os.unlink(path)
    if rep is not None:
        ex = rep.get('extra') or {}
        ctx.extra.setdefault('cases_by_family', {}).update(ex.get('cases_by_family') or {})
        ctx.extra['methods_applied'] = ex.get('methods_applied')
        ctx.extra['methods'] = ex.get('methods')
        # exhaustive = TLC finished the enumeration and every printed case was replayed
        ctx.exhaustive = bool(r.ok and rep.get('traces') == len(r.cases) and not rep.get('inconclusive'))
    return rep
