"""C15 - typed reply accessors and RedisError classifiers never panic and propagate errors."""
from checks import accesscommon
LEVEL = 'exploration'


def run(ctx):
    tier = 'thorough' if ctx.tier == 'thorough' else 'quick'
    # non-vacuity of the oracle's own invariant: a classifier that says ok without an address breaks RedirectHasAddr
    accesscommon.negative(ctx, 'MC_neg_redirect.cfg', 'RedirectHasAddr')
    # round 2: a helper allowed to return a value although one component of its reply is malformed breaks CompNeverValue
    accesscommon.negative(ctx, 'MC_neg_complenient.cfg', 'CompNeverValue')
    r = accesscommon.generate(ctx, 'Gen_c15_%s.cfg' % tier)
    accesscommon.replay(ctx, r)
