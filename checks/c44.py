"""C44 ParseURL: Url.tla decision table -> rueidis.ParseURL."""
from checks import purecommon as pc
LEVEL = 'exploration'


def run(ctx):
    th = ctx.tier == 'thorough'
    cases, _ = pc.run_tlc_jobs(ctx,
        pc.generate('Url', 'Url_thorough.cfg' if th else 'Url_quick.cfg', timeout=3000, min_cases=1000),
        pc.negative('Url', 'Url_neg_writetodial.cfg', 'NonInterference'))
    if cases is None:
        return
    pc.drive(ctx, 'url', cases)
    ctx.exhaustive = False
    ctx.assumptions += ['the URL text of each form (Url.tla Text*/Query) is what the driver concatenates; net/url does the parsing inside ParseURL',
                        'modelled as coded, not promised by the documentation: ?db= wins over the path and is honoured for every scheme; skip_verify is ignored without TLS']
