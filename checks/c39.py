"""C39 rueidisaside: Aside.tla (exhaustive + negative configs + liveness), TLC-generated and counterexample-derived
scenarios driven through real cache-aside clients over fakeredis (asidedrv), traces judged by AsideTrace.tla."""
import json, os, re, shutil, tempfile
from lib import vlib
from checks import lockaside_common

LEVEL = 'model_checking'
FAMILY = 'addons'

QUICK = ['MC_aside_q1.cfg', 'MC_aside_q2.cfg', 'MC_aside_q3.cfg', 'MC_aside_q4.cfg']
THOROUGH = ['MC_aside_t1.cfg', 'MC_aside_t2.cfg', 'MC_aside_t3.cfg']
NEG = [('MC_aside_neg_ph.cfg', 'NeverReturnsPlaceholder'), ('MC_aside_neg_live.cfg', 'LoaderOnceWhileHolderAlive'),
       ('MC_aside_neg_live2.cfg', 'LockStolenOnlyFromDead'), ('MC_aside_neg_del.cfg', 'DelOnlyOwn')]
SIG = {'NeverReturnsPlaceholder': 'aside-get-returns-placeholder',
       'ValueFromLoaderOrStore': 'aside-get-returns-value-neither-loaded-nor-stored',
       'LoaderOnceWhileHolderAlive': 'aside-second-loader-while-holder-alive',
       'LockStolenFromLiveHolder': 'aside-lock-deleted-while-holder-alive',
       'DelOnlyOwn': 'aside-delkey-removed-foreign-value',
       'DeadLockReleased': 'aside-dead-clients-lock-not-released'}


CEX = {}      # negative config -> TLC result (its error trace is replayed against the real code)


def model(ctx, th):
    for c in QUICK + (THOROUGH if th else []):
        ctx.run_tlc(FAMILY, 'AsideGen', c, workers=8, timeout=1500)
    for c, inv in NEG:
        CEX[c] = ctx.run_tlc(FAMILY, 'AsideGen', c, expect_violation=inv, workers=2, timeout=600)
    ctx.run_tlc(FAMILY, 'AsideGen', 'MC_aside_live.cfg', workers=4, timeout=900)


# ------------------------------------------------------------------------------------ TLC behaviour -> driver scenario
ENV = ('Get', 'Die', 'Del', 'KeyExpire', 'IdExpire', 'Disconnect')


def project(hist, sid, cls, lua=False, typed=False):
    """Environment-controlled steps of a behaviour of Aside.tla. The loader of a Get lasts as long as the behaviour keeps
    it loading (counted in environment steps that happen meanwhile); a Get that times out gets a short TTL."""
    steps, dead, nclients = [], set(), 2
    for n, r in enumerate(hist):
        a, c, k = r['a'], r['c'], r['k']
        nclients = max(nclients, c)
        if a == 'Get':
            rest = hist[n + 1:]
            nxt = next((j for j, x in enumerate(rest) if x['a'] == 'Get' and x['c'] == c), len(rest))
            mine = rest[:nxt]
            lock = next((j for j, x in enumerate(mine) if x['a'] == 'Locked' and x['c'] == c), None)
            load, fail = 60, False
            if lock is not None:
                # the loader's result reaches the server with the setkey / delkey script that follows it
                end = next((j for j, x in enumerate(mine) if j > lock and x['c'] == c and x['a'] in ('SetKey', 'Unlock')), None)
                res = next((j for j, x in enumerate(mine) if j > lock and x['c'] == c and x['a'] in ('LoadOk', 'LoadFail')), None)
                died = next((j for j, x in enumerate(mine) if j > lock and x['c'] == c and x['a'] == 'Die'), None)
                if end is None or (died is not None and died < end):
                    load = 1200
                else:
                    fail = mine[end]['a'] == 'Unlock' or (res is not None and mine[res]['a'] == 'LoadFail')
                    load = 60 + 150 * sum(1 for x in mine[lock:end] if x['a'] in ENV and x['c'] != c)
            ttl = 300 if any(x['a'] == 'Timeout' and x['c'] == c for x in mine) else 2000
            steps.append(dict(op='get', c=c, k=k, ttl=ttl, load=load, fail=fail))
        elif a == 'Die':
            dead.add(c)
            steps.append(dict(op='die', c=c))
        elif a == 'Del':
            alive = [x for x in range(1, nclients + 1) if x not in dead]
            steps.append(dict(op='del', c=alive[-1] if alive else 1, k=k))
        elif a == 'KeyExpire':
            steps.append(dict(op='expire', k=k))
        elif a == 'IdExpire':
            steps.append(dict(op='expireid', c=c))
        elif a == 'Disconnect':
            steps.append(dict(op='disc', c=c))
    return dict(id=sid, clients=max(nclients, 2), lua=lua, typed=typed, steps=steps, **{'class': cls})


_STATE = re.compile(r'^State (\d+): <(\w+)(?:\(([^)]*)\))? line', re.M)
NAMES = {'Begin': 'Get', 'Lock': 'Locked', 'LoadOk': 'LoadOk', 'LoadFail': 'LoadFail', 'Timeout': 'Timeout', 'Die': 'Die',
         'UserDel': 'Del', 'KeyExpire': 'KeyExpire', 'IdExpire': 'IdExpire', 'Disconnect': 'Disconnect', 'SetKey': 'SetKey',
         'Unlock': 'Unlock', 'Steal': 'Steal'}


def hist_of_counterexample(out):
    """The behaviour of a TLC error trace as records of the `hist` variable of Aside.tla (action names and arguments;
    a Lock step counts as `Locked` only when it took the lock, which shows as a loader run)."""
    heads = list(_STATE.finditer(out))
    hist, nloads = [], 0
    for n, h in enumerate(heads):
        body = out[h.end():heads[n + 1].start() if n + 1 < len(heads) else len(out)]
        act = h.group(2)
        args = [int(x) for x in (h.group(3) or '').replace(' ', '').split(',') if x.lstrip('-').isdigit()]
        m = re.search(r'/\\ nloads = (\d+)', body)
        cur = int(m.group(1)) if m else nloads
        if act in NAMES:
            name = NAMES[act]
            if act == 'Lock' and cur == nloads:
                name = 'LockBusy'
            c = 0 if act in ('UserDel', 'KeyExpire') else (args[0] if args else 0)
            k = args[0] if act in ('UserDel', 'KeyExpire') else (args[1] if len(args) > 1 else 1)
            hist.append(dict(a=name, c=c, k=k))
        nloads = cur
    # the key of every later step of a Get is the one given at its Begin
    key = {}
    for r in hist:
        if r['a'] == 'Get':
            key[r['c']] = r['k']
        elif r['c'] in key and r['a'] not in ('Del', 'KeyExpire', 'IdExpire'):
            r['k'] = key[r['c']]
    return hist


def scenarios(ctx, th):
    scs = []
    for cfg, cls in (('MC_aside_neg_ph.cfg', 'cex-timeout'), ('MC_aside_neg_live.cfg', 'cex-steal'),
                     ('MC_aside_neg_del.cfg', 'cex-unlock')):
        r = CEX.get(cfg)
        if r is None:
            r = vlib.tlc(FAMILY, 'AsideGen', cfg, workers=2, timeout=600)
            ctx.tlc_runs.append(r.summary())
        hist = hist_of_counterexample(r.output)
        if not any(x['a'] == 'Get' for x in hist):
            ctx.inconclusive.append('no counterexample behaviour from %s: %s' % (cfg, r.error))
            continue
        for rep in range(4):
            scs.append(project(hist, '%s-%d' % (cls, rep), cls, lua=rep % 2 == 1, typed=rep >= 2))
    r = vlib.tlc(FAMILY, 'AsideGen', 'MC_aside_gen.cfg', simulate=(400 if th else 80), depth=34, seed=ctx.seed,
                 collect_cases=True, timeout=900)
    ctx.tlc_runs.append(r.summary())
    seen = set()
    for n, hist in enumerate(r.cases):
        sc = project(hist, 'gen%d' % n, 'generated', lua=n % 2 == 0, typed=n % 3 == 0)
        key = json.dumps(sc['steps'], sort_keys=True)
        if key in seen or sum(1 for s in sc['steps'] if s['op'] == 'get') < 2:
            continue
        seen.add(key)
        scs.append(sc)
    if not r.cases:
        ctx.inconclusive.append('scenario generation produced nothing: %s\n%s' % (r.error, r.output[-1500:]))
    return scs


def validate(ctx, tracefile, index):
    return lockaside_common.validate(ctx, 'AsideTrace', 'AsideTrace.cfg', 'aside', tracefile, index)


def drive(ctx, th, scs):
    binp = vlib.build('asidedrv')
    tmp = tempfile.mkdtemp(prefix='verif-aside-', dir=vlib.SCRATCH_ROOT)
    try:
        sf = os.path.join(tmp, 'scen.ndjson')
        vlib.write_ndjson(sf, scs)
        rep = ctx.run_driver(binp, ['-mode', 'both', '-scen', sf, '-runs', '150' if th else '40', '-tracedir', tmp,
                                    '-par', '16'], timeout=1500)
        if rep is None:
            return
        index = json.load(open(os.path.join(tmp, 'aside-index.json')))
        verdicts, events = validate(ctx, os.path.join(tmp, 'aside-traces.ndjson'), index)
        for j, props in sorted(verdicts.items()):
            e = index[j]
            evs = events[e['first'] - 1:e['last']]
            for prop in sorted(props):
                if prop == 'DeadLockReleased' and not confirm(ctx, binp, e['scenario'], prop, tmp):
                    ctx.notes.append('%s on scenario %s did not reproduce (timing)' % (prop, e['scenario']['id']))
                    continue
                dst = lockaside_common.keep_trace(ctx, '%s-%s.ndjson' % (prop, e['scenario']['id']), evs)
                ctx.violation(SIG.get(prop, 'aside-' + prop),
                              'real cache-aside clients, scenario %s: AsideTrace.tla reports %s violated on the recorded trace' % (
                                  json.dumps(e['scenario']), prop), dict(trace=dst, scenario=e['scenario']))
    finally:
        shutil.rmtree(tmp, ignore_errors=True)
    ctx.assumptions += ['fakeredis + luamini stand for Redis: OPTIN tracking of DoCache reads, invalidation on write and expiry, scripts executed from the text the library sends',
                        'a scenario only approximates the order of the TLC behaviour it comes from; verdicts are taken from the recorded trace alone',
                        'client death is simulated by cutting its connections, refusing its dials and closing it without a reachable server']


def confirm(ctx, binp, sc, prop, tmp):
    d = tempfile.mkdtemp(prefix='confirm-', dir=tmp)
    sf = os.path.join(d, 'scen.ndjson')
    vlib.write_ndjson(sf, [dict(sc, id='%s-r%d' % (sc['id'], n)) for n in range(2)])
    sub = vlib.Ctx(ctx.pid, ctx.tier, ctx.seed, ctx.level)
    rep = sub.run_driver(binp, ['-mode', 'scen', '-scen', sf, '-tracedir', d], timeout=600)
    if rep is None:
        return False
    index = json.load(open(os.path.join(d, 'aside-index.json')))
    verdicts, _ = validate(sub, os.path.join(d, 'aside-traces.ndjson'), index)
    return sum(1 for props in verdicts.values() if prop in props) >= 1


def run(ctx):
    th = ctx.tier == 'thorough'
    if os.environ.get('VERIF_ONLY') != 'drive':      # development aid (mutation self-tests): skip the pure model part
        model(ctx, th)
    scs = scenarios(ctx, th)
    drive(ctx, th, scs)
