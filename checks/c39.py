"""C39 rueidisaside: Aside.tla (exhaustive + negative configs + liveness), TLC-generated and counterexample-derived
scenarios driven through real cache-aside clients over fakeredis (asidedrv), traces judged by AsideTrace.tla."""
import json, os, re, shutil, tempfile, threading
from lib import vlib
from checks import lockaside_common

LEVEL = 'model_checking'
FAMILY = 'addons'

QUICK = ['MC_aside_q1.cfg', 'MC_aside_q2.cfg', 'MC_aside_q3.cfg', 'MC_aside_q4.cfg',
         'MC_aside_q5.cfg', 'MC_aside_q6.cfg', 'MC_aside_q7.cfg', 'MC_aside_q8.cfg']
THOROUGH = ['MC_aside_t1.cfg', 'MC_aside_t2.cfg', 'MC_aside_t3.cfg', 'MC_aside_t4.cfg', 'MC_aside_t5.cfg', 'MC_aside_t6.cfg', 'MC_aside_t7.cfg', 'MC_aside_t8.cfg']
NEG = [('MC_aside_neg_ph.cfg', 'NeverReturnsPlaceholder'), ('MC_aside_neg_live.cfg', 'LoaderOnceWhileHolderAlive'),
       ('MC_aside_neg_live2.cfg', 'LockStolenOnlyFromDead'), ('MC_aside_neg_del.cfg', 'DelOnlyOwn'),
       # round 2: the loser of a registration race keeps its id / fn == nil returns the first read / plain DEL of a dead lock
       ('MC_aside_neg_adopt.cfg', 'LockNamesRefreshedId'), ('MC_aside_neg_adopt2.cfg', 'LoaderOnceWhileHolderAlive'),
       ('MC_aside_neg_nil.cfg', 'NeverReturnsPlaceholder'), ('MC_aside_neg_steal.cfg', 'DelOnlyOwn'),
       ('MC_aside_neg_steal2.cfg', 'LoaderOnceWhileHolderAlive')]
SIG = {'NeverReturnsPlaceholder': 'aside-get-returns-placeholder',
       'ValueFromLoaderOrStore': 'aside-get-returns-value-neither-loaded-nor-stored',
       'LoaderOnceWhileHolderAlive': 'aside-second-loader-while-holder-alive',
       'LockStolenFromLiveHolder': 'aside-lock-deleted-while-holder-alive',
       'DelOnlyOwn': 'aside-delkey-removed-foreign-value',
       'DeadLockReleased': 'aside-dead-clients-lock-not-released',
       'LockNamesRefreshedId': 'aside-lock-names-client-id-nobody-refreshes',
       'HolderMarkerKeptAlive': 'aside-live-holders-marker-expired-unrefreshed'}
# verdicts that depend on the wall clock or on the scheduling of the driver process: they count when a re-run shows them again
RERUN = ('DeadLockReleased', 'LockNamesRefreshedId', 'HolderMarkerKeptAlive')
# caller -> client maps of the configurations whose counterexamples are replayed (ClientOf <- CO_.. in the cfg)
CO = {'MC_aside_neg_adopt2.cfg': [1, 1, 2]}


REPLAYED = (('MC_aside_neg_ph.cfg', 'cex-timeout'), ('MC_aside_neg_live.cfg', 'cex-steal'),
            ('MC_aside_neg_del.cfg', 'cex-unlock'), ('MC_aside_neg_adopt2.cfg', 'cex-register'),
            ('MC_aside_neg_nil.cfg', 'cex-nilget'), ('MC_aside_neg_steal2.cfg', 'cex-twowaiters'))


def model(ctx, th):
    """The pure model part (the negative configurations whose counterexamples are replayed run on the driver side)."""
    for c in QUICK + (THOROUGH if th else []):
        ctx.run_tlc(FAMILY, 'AsideGen', c, workers=4, timeout=1500)
    for c, inv in NEG:
        if c not in dict(REPLAYED):
            ctx.run_tlc(FAMILY, 'AsideGen', c, expect_violation=inv, workers=2, timeout=600)
    for c in ('MC_aside_live.cfg', 'MC_aside_live2.cfg'):
        ctx.run_tlc(FAMILY, 'AsideGen', c, workers=4, timeout=900)


# ------------------------------------------------------------------------------------ TLC behaviour -> driver scenario
ENVA = ('Die', 'Del', 'KeyExpire', 'IdExpire', 'Disconnect')


def infer_gates(hist):
    """Interleavings of a behaviour that the real run only reproduces when replies are held on the server double:
    (1) two callers of one client register an id at once (both wrote one before either adopted);
    (2) two waiters X, Y on different clients saw the holder's liveness key gone before X released the lock, and Y
        released after X had taken the lock."""
    gates = []

    def idx(a, p, lo=0):
        return next((j for j in range(lo, len(hist)) if hist[j]['a'] == a and hist[j]['p'] == p), None)
    procs = sorted({r['p'] for r in hist if r['p']})
    cl = {r['p']: r['c'] for r in hist if r['p']}
    raced = set()
    for p in procs:
        for q in procs:
            if p < q and cl[p] == cl[q] and cl[p] not in raced:
                kp, kq = idx('Keepalive', p), idx('Keepalive', q)
                ap = idx('KaAdopt', p, kp or 0) if kp is not None else None
                aq = idx('KaAdopt', q, kq or 0) if kq is not None else None
                if None not in (kp, kq, ap, aq) and kq < ap and kp < aq:
                    raced.add(cl[p])
                    gates.append(dict(op='gate', c=cl[p], what='idset', uc=cl[p], until='idset', n=2, ms=500))
    done = set()

    def last(a, p, hi):
        return next((j for j in range(hi - 1, -1, -1) if hist[j]['a'] == a and hist[j]['p'] == p), None)
    for x in procs:
        for y in procs:
            if x == y or cl[x] == cl[y] or (cl[x], cl[y]) in done:
                continue
            lx = idx('Locked', x)
            sy = idx('Steal', y, lx + 1) if lx is not None else None
            if sy is None or hist[lx]['k'] != hist[sy]['k']:
                continue
            gx, gy = last('PhGone', x, lx), last('PhGone', y, sy)
            sx = idx('Steal', x, gx + 1) if gx is not None else None
            ry = last('Read', y, gy) if gy is not None else None
            if sx is None or sx > lx or ry is None or ry > sx:
                continue                 # Y did not look at the lock X released
            done.add((cl[x], cl[y]))
            gates.append(dict(op='gate', c=cl[x], what='phgone', uc=cl[y], until='phgone', n=1, ms=700))
            gates.append(dict(op='gate', c=cl[y], what='phgone', uc=cl[x], until='lock', n=1, ms=700))
    return gates


def project(hist, sid, cls, lua=False, typed=False, slow=0, single=False):
    """Environment-controlled steps of a behaviour of Aside.tla. A Get is issued where the behaviour reads the key for
    the first time; its loader lasts as long as the behaviour keeps it loading (counted in environment steps that happen
    meanwhile); a Get that times out gets a short TTL. An expiry of a liveness key that no refresh serves cannot be forced
    (the driver cannot tell it from the one the client refreshes): time passes instead."""
    hist = [dict(r, p=r.get('p', r['c'])) for r in hist]
    nclients = max([2] + [r['c'] for r in hist])
    marker = 380 * max(slow, 1)          # ms after which an unrefreshed liveness key is gone
    emit = {}
    for n, r in enumerate(hist):
        if r['a'] not in ('Get', 'GetNil'):
            continue
        p, c, k = r['p'], r['c'], r['k']
        rest = hist[n + 1:]
        nxt = next((j for j, x in enumerate(rest) if x['a'] in ('Get', 'GetNil') and x['p'] == p), len(rest))
        mine = rest[:nxt]
        rd = next((j for j, x in enumerate(mine) if x['a'] == 'Read' and x['p'] == p), None)
        if rd is None:
            if any(x['a'] == 'Read' for x in hist):
                continue                  # the behaviour never let this Get run
            rd = -1                       # (behaviours from error traces of old configurations carry no Read records)
        emit[n + 1 + rd] = (n, mine, p, c, k, r['a'] == 'GetNil')
    starts = set(emit)
    steps, dead = [], set()
    for n, r in enumerate(hist):
        a, c, k = r['a'], r['c'], r['k']
        if n in emit:
            g, mine, p, c, k, isnil = emit[n]
            off = g + 1                   # mine[j] is hist[off + j]
            lock = next((j for j, x in enumerate(mine) if x['a'] == 'Locked' and x['p'] == p), None)
            load, fail = 60, False
            if lock is not None:
                # the loader's result reaches the server with the setkey / delkey script that follows it
                end = next((j for j, x in enumerate(mine) if j > lock and x['p'] == p and x['a'] in ('SetKey', 'Unlock')), None)
                res = next((j for j, x in enumerate(mine) if j > lock and x['p'] == p and x['a'] in ('LoadOk', 'LoadFail')), None)
                died = next((j for j, x in enumerate(mine) if j > lock and x['c'] == c and x['a'] == 'Die'), None)
                if end is None or (died is not None and died < end):
                    load = 1200 + (marker + 150) * sum(1 for x in mine[lock:] if x['a'] == 'IdExpire' and x.get('s') == 'orphan')
                else:
                    fail = mine[end]['a'] == 'Unlock' or (res is not None and mine[res]['a'] == 'LoadFail')
                    win = range(lock, end)
                    load = 60 + 150 * sum(1 for j in win if (mine[j]['a'] in ENVA and mine[j]['c'] != c) or
                                          (off + j in starts and mine[j]['p'] != p))
                    load += (marker + 150) * sum(1 for j in win if mine[j]['a'] == 'IdExpire' and mine[j].get('s') == 'orphan')
            ttl = 300 if any(x['a'] == 'Timeout' and x['p'] == p for x in mine) else max(2000, load + 1500)
            if slow > 1 and ttl > 300:
                ttl = max(ttl, 4000)
            st = dict(op='get', c=c, k=k, ttl=ttl, load=load, fail=fail)
            if isnil:
                st['nil'] = True
            # the behaviour lets this Get take the lock before the environment or another Get moves on
            nxt_step = next((j for j in range(n + 1, len(hist)) if j in starts or hist[j]['a'] in ENVA), None)
            if lock is not None and nxt_step is not None and off + lock < nxt_step and \
                    all(x['a'] != 'Locked' for x in hist[n:off + lock]):
                st['hold'] = True
            steps.append(st)
            if a in ('Get', 'GetNil', 'Read'):
                continue
        if a == 'Die':
            dead.add(c)
            steps.append(dict(op='die', c=c))
        elif a == 'Del':
            alive = [x for x in range(1, nclients + 1) if x not in dead]
            steps.append(dict(op='del', c=alive[-1] if alive else 1, k=k))
        elif a == 'KeyExpire':
            steps.append(dict(op='expire', k=k))
        elif a == 'IdExpire':
            if r.get('s') == 'orphan':
                steps.append(dict(op='sleep', ms=marker))
            else:
                steps.append(dict(op='expireid', c=c))
        elif a == 'Disconnect':
            steps.append(dict(op='disc', c=c))
    if any(st['op'] == 'expireid' for st in steps):
        slow, single = 0, single or slow > 1     # a forced expiry of a liveness key is not a missing refresh
    sc = dict(id=sid, clients=nclients, lua=lua, typed=typed, steps=infer_gates(hist) + steps, **{'class': cls})
    if slow > 1:
        sc['slow'] = slow
    if slow > 1 or single:
        sc['single'] = True
    return sc


_STATE = re.compile(r'^State (\d+): <(\w+)(?:\(([^)]*)\))? line', re.M)
NAMES = {'Start': 'Read', 'Keepalive': 'Keepalive', 'KaAdopt': 'KaAdopt', 'Lock': 'Locked', 'LoadOk': 'LoadOk',
         'LoadFail': 'LoadFail', 'Timeout': 'Timeout', 'Die': 'Die',
         'UserDel': 'Del', 'KeyExpire': 'KeyExpire', 'IdExpire': 'IdExpire', 'Disconnect': 'Disconnect', 'SetKey': 'SetKey',
         'Unlock': 'Unlock', 'Steal': 'Steal', 'PhCheck': 'PhCheck'}


def _tuple(body, name):
    m = re.search(r'/\\ %s = <<(.*?)>>' % name, body, re.S)
    return [x.strip().strip('"') for x in m.group(1).split(',')] if m else None


def hist_of_counterexample(out, co=None):
    """The behaviour of a TLC error trace as records of the `hist` variable of Aside.tla (action names, arguments and
    what the records add: a Lock step counts as `Locked` only when it took the lock, which shows as a loader run; a
    PhCheck that finds the liveness key gone is `PhGone`; the kind of an IdExpire). co: caller -> client."""
    heads = list(_STATE.finditer(out))
    hist, nloads, inc, dead, tgt = [], 0, None, set(), {}
    for n, h in enumerate(heads):
        body = out[h.end():heads[n + 1].start() if n + 1 < len(heads) else len(out)]
        act = h.group(2)
        raw = [x for x in (h.group(3) or '').replace(' ', '').split(',') if x]
        args = [int(x) for x in raw if x.lstrip('-').isdigit()]
        m = re.search(r'/\\ nloads = (\d+)', body)
        cur = int(m.group(1)) if m else nloads
        pcs = _tuple(body, 'pc')
        rec = None
        if act in ('Begin', 'BeginAny', 'BeginNil'):
            rec = dict(a='GetNil' if 'TRUE' in raw or act == 'BeginNil' else 'Get', p=args[0], k=args[1])
            tgt[args[0]] = args[1]
        elif act in ('UserDel', 'KeyExpire'):
            rec = dict(a=NAMES[act], p=0, c=0, k=args[0])
        elif act == 'IdExpire':
            c, i = args
            kind = 'dead' if c in dead else 'late' if inc and int(inc[c - 1]) == i else 'orphan'
            rec = dict(a='IdExpire', p=0, c=c, k=i, s=kind)
        elif act in ('Die', 'Disconnect'):
            rec = dict(a=act, p=0, c=args[0], k=0)
        elif act in NAMES:
            p = args[0]
            name = NAMES[act]
            if act == 'Lock' and cur == nloads:
                name = 'LockBusy'
            if act == 'PhCheck' and pcs and pcs[p - 1] == 'steal':
                name = 'PhGone'
            rec = dict(a=name, p=p, k=tgt.get(p, 1))
        if rec is not None:
            if 'c' not in rec:
                rec['c'] = co[rec['p'] - 1] if co else rec['p']
            hist.append(rec)
        nloads = cur
        inc = _tuple(body, 'inc') or inc
        m = re.search(r'/\\ dead = \{([^}]*)\}', body)
        if m:
            dead = {int(x) for x in m.group(1).split(',') if x.strip()}
    return hist


def nil_class(hist):
    """What a generated behaviour shows the Get without a loader that returns last: the states in which it read the key
    (nil / phlive / phdead / v), what the specification lets it return, and what the environment did to the holder."""
    g = max(j for j, r in enumerate(hist) if r['a'] == 'GetNil')
    seen = [r['s'] for r in hist[g:] if r['a'] == 'Read' and r['p'] == hist[g]['p']]
    return '%s->%s' % ('+'.join(seen), hist[-1]['r'])


def scenarios(ctx, th):
    scs = []
    for cfg, cls in REPLAYED:
        r = ctx.run_tlc(FAMILY, 'AsideGen', cfg, expect_violation=dict(NEG)[cfg], workers=2, timeout=600)
        if r.violated != dict(NEG)[cfg]:
            continue                     # (reported as inconclusive by run_tlc)
        hist = hist_of_counterexample(r.output, CO.get(cfg))
        if not any(x['a'] in ('Get', 'GetNil') for x in hist):
            ctx.inconclusive.append('no counterexample behaviour from %s: %s' % (cfg, r.error))
            continue
        for rep in range(4):
            scs.append(project(hist, '%s-%d' % (cls, rep), cls, lua=rep % 2 == 1, typed=rep >= 2,
                               slow=4 if cls == 'cex-register' and rep >= 2 else 0, single=cls == 'cex-register' or rep == 3))
    # Gets without a loader at every state of the key: exhaustive generation, one scenario per class of behaviour
    r = vlib.tlc(FAMILY, 'AsideGen', 'MC_aside_nilgen.cfg', simulate=(1500 if th else 600), depth=30, seed=ctx.seed,
                 collect_cases=True, timeout=900)
    ctx.tlc_runs.append(r.summary())
    classes = {}
    for hist in r.cases:
        classes.setdefault(nil_class(hist), []).append(hist)
    ctx.extra['nil_get_classes'] = {k: len(v) for k, v in sorted(classes.items())}
    rng = __import__('random').Random(ctx.seed)
    for n, (cls, hs) in enumerate(sorted(classes.items())):
        for rep, hist in enumerate(rng.sample(hs, min(len(hs), 6 if th else 3))):
            scs.append(dict(project(hist, 'nil%d-%d' % (n, rep), 'nilget', lua=(n + rep) % 2 == 0, single=n % 2 == 1), expect=cls))
    if not classes:
        ctx.inconclusive.append('generation of Gets without a loader produced nothing: %s\n%s' % (r.error, r.output[-1500:]))
    r = vlib.tlc(FAMILY, 'AsideGen', 'MC_aside_gen.cfg', simulate=(400 if th else 80), depth=34, seed=ctx.seed,
                 collect_cases=True, timeout=900)
    ctx.tlc_runs.append(r.summary())
    seen = set()
    for n, hist in enumerate(r.cases):
        # every fourth behaviour without a death runs on a slow server clock with one long loader: no liveness key of a
        # live client may expire there
        slow = 4 if n % 4 == 1 and not any(x['a'] in ('Die', 'IdExpire') for x in hist) else 0
        sc = project(hist, 'gen%d' % n, 'generated', lua=n % 2 == 0, typed=n % 3 == 0, slow=slow, single=n % 2 == 1)
        if slow:
            g = next((s for s in sc['steps'] if s['op'] == 'get' and not s.get('nil') and not s['fail']), None)
            if g is not None:
                g['load'], g['ttl'] = 1700, 3500
        key = json.dumps(sc['steps'], sort_keys=True)
        if key in seen or sum(1 for s in sc['steps'] if s['op'] == 'get') < 2:
            continue
        seen.add(key)
        scs.append(sc)
    if not r.cases:
        ctx.inconclusive.append('scenario generation produced nothing: %s\n%s' % (r.error, r.output[-1500:]))
    return scs


def validate(ctx, tracefile, index):
    return lockaside_common.validate(ctx, 'AsideTrace', 'AsideTrace.cfg', 'aside', tracefile, index)


def drive(ctx, th, scs):
    binp = vlib.build('asidedrv')
    tmp = tempfile.mkdtemp(prefix='verif-aside-', dir=vlib.SCRATCH_ROOT)
    try:
        sf = os.path.join(tmp, 'scen.ndjson')
        vlib.write_ndjson(sf, scs)
        rep = ctx.run_driver(binp, ['-mode', 'both', '-scen', sf, '-runs', '150' if th else '40', '-tracedir', tmp,
                                    '-par', '16'], timeout=1500)
        if rep is None:
            return
        index = json.load(open(os.path.join(tmp, 'aside-index.json')))
        verdicts, events = validate(ctx, os.path.join(tmp, 'aside-traces.ndjson'), index)
        for j, props in sorted(verdicts.items()):
            e = index[j]
            evs = events[e['first'] - 1:e['last']]
            for prop in sorted(props):
                if prop in RERUN and not confirm(ctx, binp, e['scenario'], prop, tmp):
                    ctx.notes.append('%s on scenario %s did not reproduce (timing)' % (prop, e['scenario']['id']))
                    continue
                dst = lockaside_common.keep_trace(ctx, '%s-%s.ndjson' % (prop, e['scenario']['id']), evs)
                ctx.violation(SIG.get(prop, 'aside-' + prop),
                              'real cache-aside clients, scenario %s: AsideTrace.tla reports %s violated on the recorded trace' % (
                                  json.dumps(e['scenario']), prop), dict(trace=dst, scenario=e['scenario']))
    finally:
        shutil.rmtree(tmp, ignore_errors=True)
    ctx.assumptions += ['fakeredis + luamini stand for Redis: OPTIN tracking of DoCache reads, invalidation on write and expiry, scripts executed from the text the library sends',
                        'a scenario only approximates the order of the TLC behaviour it comes from; verdicts are taken from the recorded trace alone',
                        'client death is simulated by cutting its connections, refusing its dials and closing it without a reachable server']


def confirm(ctx, binp, sc, prop, tmp):
    d = tempfile.mkdtemp(prefix='confirm-', dir=tmp)
    sf = os.path.join(d, 'scen.ndjson')
    vlib.write_ndjson(sf, [dict(sc, id='%s-r%d' % (sc['id'], n)) for n in range(2)])
    sub = vlib.Ctx(ctx.pid, ctx.tier, ctx.seed, ctx.level)
    rep = sub.run_driver(binp, ['-mode', 'scen', '-scen', sf, '-tracedir', d], timeout=600)
    if rep is None:
        return False
    index = json.load(open(os.path.join(d, 'aside-index.json')))
    verdicts, _ = validate(sub, os.path.join(d, 'aside-traces.ndjson'), index)
    return sum(1 for props in verdicts.values() if prop in props) >= 1


def run(ctx):
    th = ctx.tier == 'thorough'
    mt = None
    if os.environ.get('VERIF_ONLY') != 'drive':      # development aid (mutation self-tests): skip the pure model part
        # the pure model part and the driver side are independent: they run side by side (two jobs at a time)
        mt = threading.Thread(target=model, args=(ctx, th))
        mt.start()
    try:
        if os.environ.get('VERIF_ONLY') != 'model':
            scs = scenarios(ctx, th)
            drive(ctx, th, scs)
    finally:
        if mt is not None:
            mt.join()
