"""C01: every call gets exactly its own replies, in order (see checks/pipecommon.py, design/pipeobs.md)."""
from checks import pipecommon, cachecommon
LEVEL = 'model_checking'


def run(ctx):
    pipecommon.run_family(
        ctx, 'C01',
        mc=['MC_quick.cfg', 'MC_cache.cfg'],
        negs=[('MC_neg_offbyone.cfg', 'OwnRepliesInOrder'), ('MC_neg_split.cfg', 'BatchContiguousOnWire'), ('MC_neg_future.cfg', 'NoReplyFromFuture')],
        gens=[('Gen_q.cfg', 90, 1500)],
        modes=['c01', 'c33'],
        neg_traces=['swap-results', 'drop-return'],
        runs_quick=3, runs_thorough=25)
    # Redis 6 answers a multi-key / EXEC reply with invalidation pushes embedded in the announced array and the displaced
    # tail after it (redis/redis#8935); the reader's workaround must hand the tail to the same call and the next reply to
    # the next call. The Redis 6 product of the cache family (CacheR6.tla, replayed on the real client with a probe GET
    # pipelined behind every broken array) reports a reply handed to the wrong call as `redis6-misrouted-reply ...`;
    # only those verdicts are kept here (the cache-content verdicts of that product belong to C06).
    cachecommon.redis6(ctx, only_misrouted=True, validate=False)
