"""C01: every call gets exactly its own replies, in order (see checks/pipecommon.py, proposed/design_pipeobs.md)."""
from checks import pipecommon
LEVEL = 'model_checking'


def run(ctx):
    pipecommon.run_family(
        ctx, 'C01',
        mc=['MC_quick.cfg', 'MC_cache.cfg'],
        negs=[('MC_neg_offbyone.cfg', 'OwnRepliesInOrder'), ('MC_neg_split.cfg', 'BatchContiguousOnWire'), ('MC_neg_future.cfg', 'NoReplyFromFuture')],
        gens=[('Gen_q.cfg', 90, 1500)],
        modes=['c01', 'c33'],
        neg_traces=['swap-results', 'drop-return'],
        runs_quick=3, runs_thorough=25)
