"""C33: commands carry exactly the caller's arguments; no modification / recycling before the command is written (b),
builder argument formatting (a, level exploration for that part)."""
from checks import pipecommon
LEVEL = 'model_checking'


def run(ctx):
    pipecommon.run_family(
        ctx, 'C33',
        mc=['MC_quick.cfg'],
        negs=[('MC_neg_recycle.cfg', 'ArgvImmutable')],
        gens=[('Gen_q.cfg', 40, 400, lambda s: any(x['op'] == 'cancel' for x in s['script']))],
        modes=['c33', 'c01'],
        neg_traces=['recycled-argv'],
        runs_quick=3, runs_thorough=25, builder=True)
