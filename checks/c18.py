"""C18 key slots: Slot.tla (bit-serial CRC16-XMODEM, hash-tag rule) -> Slot() of commands built by both builder kinds."""
from checks import purecommon as pc
LEVEL = 'exploration'


def run(ctx):
    th = ctx.tier == 'thorough'
    cases, _, _ = pc.run_tlc_jobs(ctx,
        pc.generate('Slot', 'Slot_thorough.cfg' if th else 'Slot_quick.cfg', min_cases=1000),
        pc.negative('Slot', 'Slot_neg_emptytag.cfg', 'TagRuleOK'),
        pc.negative('Slot', 'Slot_neg_lastbrace.cfg', 'TagRuleOK'))
    if cases is None:
        return
    pc.drive(ctx, 'slot', cases)
    ctx.exhaustive = False
    ctx.assumptions += ['rueidis.VerifBuilder(true/false) returns cmds.NewBuilder(cmds.InitSlot / cmds.NoSlot), the builders cluster.go and client.go hand out; '
                        'additionally B() of a real cluster client and a real single client connected to fakeredis are exercised',
                        'for a non-cluster builder and keys of different slots only acceptance is required (Slot() = no-slot flag + the slot of one of the keys)']
