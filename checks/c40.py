"""C40: Om.tla exhaustive (hash and JSON repositories, 3 concurrent savers) + negative configs; TLC-generated behaviours
replayed on the real om repositories over fakeredis (omdrv -mode replay); generated field values of every supported
type saved and fetched back (omdrv -mode roundtrip)."""
import os, shutil, tempfile
from concurrent.futures import ThreadPoolExecutor
from lib import vlib
from checks import bloomcommon as bc

LEVEL = 'model_checking'


def run(ctx):
    th = ctx.tier == 'thorough'
    binp = vlib.build('omdrv')
    # --- model
    cfgs = ['MC_om_hash_quick.cfg', 'MC_om_hash_quick2.cfg', 'MC_om_json_quick.cfg', 'MC_om_json_quick2.cfg']
    if th:
        cfgs += ['MC_om_hash_thorough.cfg', 'MC_om_json_thorough.cfg']
    skip = os.environ.get('VERIF_SKIP_MODEL') == '1'   # development aid for the mutation self-test: this stage does not read the repository
    if skip:
        ctx.assumptions.append('VERIF_SKIP_MODEL=1: exhaustive model checking and negative configs were skipped in this run')
    for c in ([] if skip else cfgs):
        bc.run_tlc(ctx, 'Om', c, workers=8, timeout=1500)
    bc.run_many(ctx, [dict(module='Om', cfg=c, expect=inv, kw=dict(workers=2, timeout=300)) for c, inv in [
        ('MC_om_neg_inverted.cfg', 'AtMostOneWinner'), ('MC_om_neg_noincr.cfg', 'VersionPlusOne'),
        ('MC_om_neg_dropsfield.cfg', 'AllFieldsStored'),
        # the hash repository as it is: nil pointer fields are not cleared (known finding, reproduced on the real code below)
        ('MC_om_hash_nilkeeps.cfg', 'FetchEqualsSaved')] if not skip])
    # --- behaviours
    jobs = [('Gen_om_hash.cfg', None), ('Gen_om_json.cfg', None)]
    nsim = 1500 if th else 250
    for i in range(2 if th else 1):
        jobs += [('GenSim_om_hash.cfg', ctx.seed * 100 + i), ('GenSim_om_json.cfg', ctx.seed * 100 + 50 + i)]

    def gen(job):
        cfg, seed = job
        kw = dict(workers=1, timeout=1200, collect_cases=True)
        if seed is not None:
            kw.update(simulate=nsim, depth=13, seed=seed)
        return vlib.tlc(bc.FAMILY, 'Om', cfg, **kw)
    behaviours = []
    with ThreadPoolExecutor(max_workers=4) as ex:
        for (cfg, seed), r in zip(jobs, ex.map(gen, jobs)):
            ctx.tlc_runs.append(dict(r.summary(), purpose='behaviour generation', behaviours=len(r.cases)))
            ctx.states += r.distinct
            ctx.transitions += r.generated
            if not r.ok or not r.cases:
                ctx.inconclusive.append('behaviour generation %s failed: %s\n%s' % (cfg, r.error, r.output[-2000:]))
                continue
            for i, c in enumerate(r.cases):
                behaviours.append(dict(id='%s-%d' % (cfg, i), repo=c['repo'], init=c['init'], steps=c['steps'],
                                       src='exhaustive' if seed is None else 'simulate seed %d' % seed))
    tmp = tempfile.mkdtemp(prefix='verif-om-', dir=vlib.SCRATCH_ROOT)
    try:
        if behaviours:
            path = os.path.join(tmp, 'behaviours.ndjson')
            vlib.write_ndjson(path, behaviours)
            ctx.run_driver(binp, ['-mode', 'replay', '-in', path], timeout=1800)
            ctx.extra['behaviours_generated'] = len(behaviours)
        rep = ctx.run_driver(binp, ['-mode', 'roundtrip', '-runs', '1500' if th else '300'], timeout=1800)
        if rep and rep.get('extra'):
            ctx.extra['field_types'] = rep['extra'].get('field_types')
    finally:
        shutil.rmtree(tmp, ignore_errors=True)
    ctx.exhaustive = False
    ctx.assumptions += [
        'fakeredis + luamini execute the real save scripts; RedisJSON (JSON.SET / JSON.GET / JSON.NUMINCRBY) is emulated on encoding/json',
        'concurrency: the save script is atomic on the server, so "concurrent saves from the same version" are sequential script '
        'executions by savers holding copies of the same version; TLC orders them in every way within the bounds',
        'entities are compared field by field with nil and empty slices/maps identified; JSON-encoded fields hold valid UTF-8 and exactly '
        'representable floats only (encoding/json is lossy otherwise)',
    ]
