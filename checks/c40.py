"""C40: Om.tla exhaustive (hash and JSON repositories; concurrent savers, SaveMulti batches over several keys, expiry and the
server clock) + negative configs; TLC-generated behaviours replayed on the real om repositories over fakeredis with a virtual
clock (omdrv -mode replay); the cells of OmTypes.tla (repository x place x field type x boundary class) executed on the real
repositories (omdrv -mode types); generated field values of every supported type saved and fetched back (omdrv -mode roundtrip)."""
import os, shutil, tempfile
from concurrent.futures import ThreadPoolExecutor
from lib import vlib
from checks import omcommon as oc

LEVEL = 'model_checking'


def run(ctx):
    th = ctx.tier == 'thorough'
    binp = vlib.build('omdrv')
    # --- model
    cfgs = ['MC_om_%s_%s.cfg' % (r, c) for c in ('quick', 'quick2', 'batch', 'exp') for r in ('hash', 'json')]
    if th:
        cfgs += ['MC_om_%s_%s.cfg' % (r, c) for c in ('thorough', 'batch_thorough', 'exp_thorough') for r in ('hash', 'json')]
    skip = os.environ.get('VERIF_SKIP_MODEL') == '1'   # development aid for the mutation self-test: this stage does not read the repository
    if skip:
        ctx.assumptions.append('VERIF_SKIP_MODEL=1: exhaustive model checking and negative configs were skipped in this run')
    negs = [('MC_om_neg_inverted.cfg', 'AtMostOneWinner'), ('MC_om_neg_noincr.cfg', 'VersionPlusOne'),
            ('MC_om_neg_dropsfield.cfg', 'AllFieldsStored'),
            ('MC_om_neg_batchshare.cfg', 'FetchEqualsSavedButNil'),   # SaveMulti is not the sequence of its single saves
            ('MC_om_neg_expzero.cfg', 'SavedIsFetchable'),            # the zero time sent as an expiry
            ('MC_om_neg_exppast.cfg', 'SavedIsFetchable'),            # a passed expiry ignored
            # the hash repository as it is: nil pointer fields are not cleared (known finding, reproduced on the real code below)
            ('MC_om_hash_nilkeeps.cfg', 'FetchEqualsSaved')]
    # --- behaviours
    jobs = []
    for r in ('hash', 'json'):
        jobs += [('Gen_om_%s.cfg' % r, None), ('Gen_om_%s_batch.cfg' % r, None), ('Gen_om_%s_batchexp.cfg' % r, None),
                 ('Gen_om_%s_exp.cfg' % r, None)]
    nsim = 1500 if th else 250
    nmix = 1500 if th else 200
    for i in range(2 if th else 1):
        jobs += [('GenSim_om_hash.cfg', ctx.seed * 100 + i, nsim), ('GenSim_om_json.cfg', ctx.seed * 100 + 50 + i, nsim),
                 ('GenSim_om_hash_mix.cfg', ctx.seed * 100 + 20 + i, nmix), ('GenSim_om_json_mix.cfg', ctx.seed * 100 + 70 + i, nmix)]

    def gen(job):
        cfg, seed = job[0], job[1]
        kw = dict(workers=1, timeout=3000, collect_cases=True)
        if seed is not None:
            kw.update(simulate=job[2], depth=13, seed=seed)
        return vlib.tlc(oc.FAMILY, 'Om', cfg, **kw)
    behaviours = []
    # all TLC runs share one pool (most of them are small: JVM start-up dominates); results are recorded in a fixed order
    with ThreadPoolExecutor(max_workers=5) as ex:
        fgen = [ex.submit(gen, j) for j in jobs]
        fmc = [] if skip else [(c, None, ex.submit(oc.raw_tlc, 'Om', c, workers=3, timeout=3000)) for c in cfgs]
        fmc += [] if skip else [(c, inv, ex.submit(oc.raw_tlc, 'Om', c, workers=1, timeout=900)) for c, inv in negs]
        for c, inv, f in fmc:
            oc.record(ctx, f.result(), 'Om', c, inv)
        for job, f in zip(jobs, fgen):
            r = f.result()
            cfg, seed = job[0], job[1]
            ctx.tlc_runs.append(dict(r.summary(), purpose='behaviour generation', behaviours=len(r.cases)))
            ctx.states += r.distinct
            ctx.transitions += r.generated
            if not r.ok or not r.cases:
                ctx.inconclusive.append('behaviour generation %s failed: %s\n%s' % (cfg, r.error, r.output[-2000:]))
                continue
            for i, c in enumerate(r.cases):
                behaviours.append(dict(id='%s-%d' % (cfg, i), repo=c['repo'], init=c['init'], steps=c['steps'],
                                       src='exhaustive' if seed is None else 'simulate seed %d' % seed))
    cells = vlib.tlc(oc.FAMILY, 'OmTypes', 'Gen_om_types.cfg', workers=1, timeout=900, collect_cases=True)
    ctx.tlc_runs.append(dict(cells.summary(), purpose='field type cells', cells=len(cells.cases)))
    tmp = tempfile.mkdtemp(prefix='verif-om-', dir=vlib.SCRATCH_ROOT)
    try:
        if behaviours:
            path = os.path.join(tmp, 'behaviours.ndjson')
            vlib.write_ndjson(path, behaviours)
            ctx.run_driver(binp, ['-mode', 'replay', '-in', path], timeout=3600)
            ctx.extra['behaviours_generated'] = len(behaviours)
        if not cells.ok or not cells.cases:
            ctx.inconclusive.append('OmTypes generation failed: %s\n%s' % (cells.error, cells.output[-2000:]))
        else:
            path = os.path.join(tmp, 'cells.ndjson')
            vlib.write_ndjson(path, cells.cases)
            rep = ctx.run_driver(binp, ['-mode', 'types', '-in', path], timeout=1800)
            if rep and rep.get('extra'):
                ctx.extra['type_cells'] = dict(given=rep['extra'].get('cells_given'), equal=rep['extra'].get('cells_equal'))
                if rep['extra'].get('cells_given') != len(cells.cases):
                    ctx.inconclusive.append('omdrv -mode types read %s of the %d cells of OmTypes.tla' % (rep['extra'].get('cells_given'), len(cells.cases)))
        rep = ctx.run_driver(binp, ['-mode', 'roundtrip', '-runs', '1500' if th else '300'], timeout=1800)
        if rep and rep.get('extra'):
            ctx.extra['field_types'] = rep['extra'].get('field_types')
    finally:
        shutil.rmtree(tmp, ignore_errors=True)
    ctx.exhaustive = False
    ctx.assumptions += [
        'fakeredis + luamini execute the real save scripts; RedisJSON (JSON.SET / JSON.GET / JSON.NUMINCRBY) is emulated on encoding/json; '
        'HSET and JSON.SET of the root keep the TTL of the key; PEXPIREAT with a time <= now removes the key',
        'the server clock is virtual (advanced only by the Tick steps of a behaviour); the client side cache learns of an expiry by the '
        'invalidation message, FetchCache is polled for up to 2 s before a difference counts',
        'concurrency: the save script is atomic on the server, so "concurrent saves from the same version" are sequential script '
        'executions by savers holding copies of the same version; TLC orders them in every way within the bounds; a SaveMulti batch is '
        'one pipeline on one connection, executed in order',
        'entities are compared field by field with nil and empty slices/maps identified, times as instant + zone offset, floats bit by '
        'bit; JSON-encoded strings hold valid UTF-8 and JSON-encoded floats are finite (OmTypes.tla: SupportedClass)',
    ]
