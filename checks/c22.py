"""C22 read-node selectors: Selector.tla (contract + algorithm model) -> the three public selector constructors."""
from checks import purecommon as pc
LEVEL = 'exploration'


def run(ctx):
    th = ctx.tier == 'thorough'
    cases, _, _ = pc.run_tlc_jobs(ctx,
        pc.generate('Selector', 'Selector_gen_thorough.cfg' if th else 'Selector_gen_quick.cfg', min_cases=1000),
        pc.model('Selector', 'Selector_thorough.cfg' if th else 'Selector_quick.cfg'),
        pc.negative('Selector', 'Selector_neg_underflow.cfg', 'AlwaysAdmissible'))
    if cases is None:
        return
    pc.drive(ctx, 'selector', cases)
    ctx.exhaustive = False
    ctx.assumptions += ['rotation is required over the first 8 same-AZ replicas among the first 255 nodes (the documented caps of pickAZ), for an unchanged node list',
                        'the order of rotation and the behaviour at the uint32 counter wrap-around are not part of the contract']
