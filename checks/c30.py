"""C30: Lua.tla exhaustive (client retries off / on) + negative configs; every TLC-enumerated scenario replayed on real
rueidis.Lua objects over fakeredis/luamini with the specification's predicted command sequence, body executions and
results; the observed behaviour validated against LuaTrace.tla with the properties evaluated at every step."""
import glob, os, shutil
from lib import vlib
from checks import addons1common as ac

LEVEL = 'model_checking'

NEG = [('EvalAfterAnyError', 'BodyAtMostOncePerExec'), ('EvalshaForNoSha', 'NoShaNeverEvalsha'),
       ('LoadEveryTime', 'LoadUntilFirstSuccess'), ('RoFallbackRw', 'ReadOnlyOnlyRo')]


def run(ctx):
    th = ctx.tier == 'thorough'
    # the pure model runs do not depend on the repository; the mutation self-test (proposed/mutations_addons1.py) skips them
    if not os.environ.get('VERIF_ADDONS1_SKIP_MODEL'):
        ctx.run_tlc('addons', 'Lua', 'Lua_MC_quick.cfg', workers=8, timeout=600)
        ctx.run_tlc('addons', 'Lua', 'Lua_MC_quick_retry.cfg', workers=8, timeout=600)
        if th:
            ctx.run_tlc('addons', 'Lua', 'Lua_MC_thorough.cfg', workers=8, timeout=1500)
            ctx.run_tlc('addons', 'Lua', 'Lua_MC_thorough_retry.cfg', workers=8, timeout=1500)
        for b, inv in NEG:
            ctx.run_tlc('addons', 'Lua', 'Lua_MC_neg_%s.cfg' % b, expect_violation=inv, workers=2, timeout=300)

    binp = vlib.build('luadrv')
    d = ac.scratch()
    try:
        allc, complete = [], True
        cfgs = ['Lua_Gen2full.cfg', 'Lua_Gen2full_retry.cfg'] if th else ['Lua_Gen1.cfg', 'Lua_Gen1_retry.cfg', 'Lua_Gen2nf.cfg']
        for cfg in cfgs:
            cases, r = ac.gen_cases(ctx, 'Lua', cfg, timeout=1500)
            complete = complete and r.ok
            allc += cases
        p = os.path.join(d, 'cases.ndjson')
        ac.write_cases(p, allc)
        mod = 6 if th else 3
        # vary which third is traced with the seed
        rep = ctx.run_driver(binp, ['-cases', p, '-trace', os.path.join(d, 'lua'), '-tracemod', str(mod)], timeout=1500)
        ctx.exhaustive = bool(complete and rep is not None and rep.get('evaluations') == len(allc))
        ctx.extra['scenarios_generated'] = len(allc)
        tmpl = open(os.path.join(vlib.SPEC, 'addons', 'Lua_Trace.cfg.tmpl')).read()
        traced = 0
        for retry in ('false', 'true'):
            f = os.path.join(d, 'lua.retry-%s.ndjson' % retry)
            if os.path.exists(f):
                if not ac.validate_trace(ctx, 'LuaTrace', tmpl.replace('%RETRY%', retry.upper()), f, 'lua-retry-' + retry, 'lua',
                                         timeout=1500):
                    ctx.traces = 0
    finally:
        shutil.rmtree(d, ignore_errors=True)
