"""C06 / C09 / C11 (server-assisted client-side caching end to end): CacheProto.tla model checking and negative
configs, TLC-generated behaviours replayed on the real client by harness/cmd/cachedrv (spec -> code, the specification's
predicted outcome is the oracle), seeded random histories, every recorded trace validated against CacheTrace.tla
(code -> spec)."""
import concurrent.futures, json, os, re, shutil, tempfile, threading, time
from lib import vlib

FAMILY = 'cacheproto'

# the findings of this family are kept next to it until they are merged into known_findings.json
_load_known = vlib.load_known


def _load_known_with_proposed():
    known = list(_load_known())
    p = os.path.join(vlib.VERIF, 'proposed', 'known_findings_cache.json')
    if os.path.exists(p):
        known += [k for k in json.load(open(p)) if k not in known]
    return known


vlib.load_known = _load_known_with_proposed
ALL_INVS = ('TypeOK NoStaleHit Positional NoHole SingleFlight FailedFlightNotCached WaitersGetFlightOutcome '
            'CancelledByOwner NoLostWaiter PendingHasOwner')
ASIS_INVS = 'TypeOK NoStaleHit Positional NoHole FailedFlightNotCached NoLostWaiter PendingHasOwner'


# ------------------------------------------------------------------------------------------------- TLC
def _tlc_retry(module, cfg, family=None, **kw):
    """Other builders share the machine and may pkill TLC: a run that ended without verdict is repeated."""
    r = None
    for _ in range(3):
        r = vlib.tlc(family or FAMILY, module, cfg, **kw)
        if r.finished or r.violated or (r.error and 'timeout' in r.error) or 'REJECTED-AT' in r.output \
                or 'Postcondition' in r.output:
            return r
        # (a parse failure of modules that parsed a minute ago is an environment hiccup -- /tmp of the JVM -- as well)
    return r


def model(ctx, jobs, workers=3, par=5, timeout=900):
    """jobs: (cfg, expected violated invariant or None[, family, module]). Runs them concurrently, books them like Ctx.run_tlc."""
    if os.environ.get('VERIF_CACHE_SKIP_MODEL'):   # mutation self-tests only: the model does not depend on the repository
        ctx.notes.append('model checking skipped (VERIF_CACHE_SKIP_MODEL)')
        return
    with concurrent.futures.ThreadPoolExecutor(par) as ex:
        futs = [(j[0], j[1], ex.submit(_tlc_retry, (j[3] if len(j) > 3 else 'CacheProto'), j[0], workers=workers, timeout=timeout,
                                       family=(j[2] if len(j) > 2 else FAMILY))) for j in jobs]
        for cfg, exp, f in futs:
            r = f.result()
            ctx.tlc_runs.append(r.summary())
            ctx.states += r.distinct
            ctx.transitions += r.generated
            if exp is not None:
                if r.violated != exp:
                    ctx.inconclusive.append('negative config cache/%s: expected violation of %s, got %s %s' % (
                        cfg, exp, r.violated, r.error or ''))
            elif not r.ok:
                ctx.inconclusive.append('TLC cache/CacheProto %s: violated=%s error=%s\n%s' % (
                    cfg, r.violated, r.error, r.output[-2500:]))


def generate(ctx, cfg, family, simulate=None, depth=70, seed=None, timeout=1800, limit=None):
    """Behaviours of CacheGen (CASE lines) as scenario dicts for the driver."""
    kw = dict(collect_cases=True, timeout=timeout)
    if simulate:
        kw.update(simulate=simulate, depth=depth, seed=(seed if seed is not None else ctx.seed))
    else:
        kw.update(workers=1)
    r = _tlc_retry('CacheGen', cfg, **kw)
    ctx.tlc_runs.append(dict(r.summary(), cases=len(r.cases)))
    ctx.states += r.distinct
    ctx.transitions += r.generated
    if r.error or not r.finished:
        ctx.inconclusive.append('generation cache/%s failed: %s\n%s' % (cfg, r.error, r.output[-1500:]))
    seen, out = set(), []
    for c in r.cases:
        key = json.dumps(c['steps'], sort_keys=True)
        if key in seen:
            continue
        seen.add(key)
        out.append(dict(name='%s-%d' % (family, len(out) + 1), steps=c['steps'], flags=c.get('flags', [])))
        if limit and len(out) >= limit:
            break
    return out


def product(ctx, module, cfg, namer, timeout=1800):
    """The scripted products (CachePurge.tla, CacheR6.tla): one behaviour per initial state, printed with the outcome
    the specification predicts at every step."""
    r = _tlc_retry(module, cfg, workers=1, timeout=timeout, collect_cases=True)
    ctx.tlc_runs.append(dict(r.summary(), cases=len(r.cases)))
    ctx.states += r.distinct
    ctx.transitions += r.generated
    if not r.ok:
        ctx.inconclusive.append('case generation cacheproto/%s failed: %s\n%s' % (cfg, r.error or r.violated, r.output[-1500:]))
    seen = {}
    for c in r.cases:
        seen.setdefault(namer(c), c)
    return [dict(name=n, steps=c['steps'], flags=c.get('flags', []), park=c.get('park', 0)) for n, c in seen.items()]


def purge_cases(ctx):
    """an invalidation (write / flush) meets a key cached under 3 / 10 commands, one or two of them in flight"""
    return product(ctx, 'CachePurge', 'Cases_purge.cfg',
                   lambda c: 'purge-%d-%s-%s' % (c['pn'], ''.join(sorted(c['pend'])), c['inv']))


def r6_cases(ctx):
    """Redis 6: invalidations embedded in the EXEC reply of DoCache / DoMultiCache / DoCache(MGET)"""
    return product(ctx, 'CacheR6', 'Cases_r6.cfg',
                   lambda c: 'r6-%s-%s-%s%s' % (c['kind'], ''.join(k[1] for k in sorted(c['lz'])), 'f' if c['fail'] else 'n',
                                                'p' if c['pend'] else ''))


def race_cases(ctx):
    """the look-up / registration race of the stores' Flight (CacheRace.tla): the delayed caller is held at the verif hook
    between the two critical sections (scenario field park)"""
    return product(ctx, 'CacheRace', 'Cases_race.cfg', lambda c: 'race-%s-%s' % (c['kind'], c['inv']))


def redis6(ctx, R=None, stores=('lru', 'adapter'), only_misrouted=False, validate=True):
    """The Redis 6 product replayed on the real client (cachedrv -mode redis6).  Every verdict carries a signature that
    starts with `redis6-`; `redis6-misrouted-reply ...` = a call was handed a reply that is not its own (C01).
    only_misrouted: keep only those (for checks of the reply routing that do not own the cache properties)."""
    own = R is None
    R = R or Runner(ctx)
    try:
        cases = r6_cases(ctx)
        before = len(ctx.violations)
        for st in stores:
            R.scen(cases, 'r6', store=st, redis6=True, par=6, max_runs=(None if ctx.tier == 'thorough' else 12), validate=validate)
        if only_misrouted:
            ctx.violations[before:] = [v for v in ctx.violations[before:] if v.get('signature', '').startswith('redis6-misrouted-reply')]
        if own and validate:
            R.validate(par=2)
    finally:
        if own:
            R.close()


def interesting(case):
    """simulation produces many short behaviours; keep those in which something can go wrong"""
    acts = [s['a'] for s in case['steps']]
    calls = [s for s in case['steps'] if s['a'] == 'call']
    return any(a in acts for a in ('rinv', 'ctx', 'cut', 'expire', 'cancelgo')) or \
        any(s.get('fail') or 'wait' in s.get('slots', []) or 'hit' in s.get('slots', []) for s in calls)


# ------------------------------------------------------------------------------------------------- driver + traces
class Runner:
    def __init__(self, ctx):
        self.ctx = ctx
        self.bin = vlib.build('cachedrv')
        self.dir = tempfile.mkdtemp(prefix='verif-cache-', dir=vlib.SCRATCH_ROOT)
        self.n = 0
        self.tmpl = open(os.path.join(vlib.SPEC, FAMILY, 'Trace.cfg.tmpl')).read()
        self.pending = []   # (tracefile, group dict, family, invs)
        self.lock = threading.Lock()

    def close(self):
        shutil.rmtree(self.dir, ignore_errors=True)

    def _drive(self, args, timeout=1800):
        """run_driver is not re-entrant: absorb under a lock"""
        sub = vlib.Ctx(self.ctx.pid, self.ctx.tier, self.ctx.seed, self.ctx.level)
        rep = sub.run_driver(self.bin, args, timeout=timeout)
        with self.lock:
            if rep is not None:
                self.ctx.absorb(rep)
            for i in sub.inconclusive:
                if rep is not None and i in (rep.get('inconclusive') or []):
                    continue
                if rep is None and 'protocol bug, message handled out of order' in i and '-mode' in args and \
                        args[args.index('-mode') + 1] == 'redis6':
                    # the reader goroutine of the client met a reply nobody was waiting for and panicked: a reply that
                    # belongs to an array was left on the wire (the driver normally sees the misrouting first)
                    self.ctx.violation('redis6-misrouted-reply what=reader-panic op= %s' % ' '.join(
                        '%s=%s' % (a.lstrip('-'), args[args.index(a) + 1]) for a in ('-tmode', '-store', '-flavor', '-api')),
                        'pipe._backgroundRead panicked with "protocol bug, message handled out of order" while replaying the '
                        'Redis 6 product: an element displaced from a broken array reply was read as a reply of its own\n' + i[-1500:])
                    continue
                self.ctx.inconclusive.append(i)
        return rep

    def scen(self, cases, family, tmode='optin', store='lru', client='single', flavor='str', api='plain', gate='',
             invs=ALL_INVS, par=8, max_runs=None, shards=1, validate=True, redis6=False, cmds=None, maxf=None):
        """Replays the behaviours on the real client.  Clients with several wires run one world per process (the
        hooks of goroutines spawned inside the client are attributed to it), hence the shards."""
        if not cases:
            return
        if client != 'single':
            shards = max(shards, min(6, (len(cases) + 19) // 20))
        group = dict(tmode=tmode, store=store, client=client, flavor=flavor, api=api, redis6=redis6, cmds=cmds, maxf=maxf)
        jobs = []
        for sh in range(shards):
            part = cases[sh::shards]
            if not part:
                continue
            self.n += 1
            sub = os.path.join(self.dir, 'g%d' % self.n)
            os.makedirs(sub)
            cf = os.path.join(sub, 'cases.ndjson')
            with open(cf, 'w') as f:
                for c in part:
                    f.write(json.dumps(dict(name=c['name'], steps=c['steps'], park=c.get('park', 0))) + '\n')
            args = ['-mode', ('redis6' if redis6 else 'scen'), '-cases', cf, '-tracedir', sub, '-tmode', tmode, '-store', store, '-client', client,
                    '-flavor', flavor, '-api', api, '-par', str(par)]
            if gate:
                args += ['-gate', gate]
            jobs.append((sub, args))
        if len(jobs) == 1:
            self._drive(jobs[0][1])
        else:
            with concurrent.futures.ThreadPoolExecutor(len(jobs)) as ex:
                list(ex.map(lambda j: self._drive(j[1]), jobs))
        if validate and client == 'single':
            for sub, _ in jobs:
                self._collect(sub, group, family, invs, max_runs)

    def random(self, runs, family='random', tmode='optin', store='lru', flavor='str', api='plain', invs=ALL_INVS, par=4):
        self.n += 1
        sub = os.path.join(self.dir, 'g%d' % self.n)
        os.makedirs(sub)
        args = ['-mode', 'random', '-runs', str(runs), '-tracedir', sub, '-tmode', tmode, '-store', store,
                '-flavor', flavor, '-api', api, '-par', str(par)]
        self._drive(args)
        self._collect(sub, dict(tmode=tmode, store=store, client='single', flavor=flavor, api=api), family, invs, None)

    def _collect(self, sub, group, family, invs, max_runs):
        for f in os.listdir(sub):
            if f.endswith('.ndjson') and f.startswith('cache-'):
                p = os.path.join(sub, f)
                if max_runs:   # validate the first max_runs runs only (every run was already compared with its prediction)
                    lines, runs, keep = open(p).read().splitlines(), 0, []
                    for l in lines:
                        if '"ev":"RESET"' in l:
                            runs += 1
                            if runs > max_runs:
                                break
                        keep.append(l)
                    open(p, 'w').write('\n'.join(keep) + '\n')
                with self.lock:
                    self.pending.append((p, group, family, invs))

    # ---- validation of everything recorded so far, concurrently
    @staticmethod
    def _gs(group):
        gs = 'mode=%(tmode)s store=%(store)s flavor=%(flavor)s api=%(api)s' % group
        return gs + (' server=redis6' if group.get('redis6') else '')

    def _merge(self):
        """One TLC run per trace configuration instead of one per recorded group (a JVM start costs more than the
        validation of a group): the groups that are validated with the same constants and invariants are concatenated;
        the RESET line of every run carries its family and group so that a verdict names them.  The families whose runs
        are expected to be rejected (stale / late: the known findings) and the free-running histories (hundreds of
        states per event) keep their own runs; a merged file holds at most ~1500 events."""
        jobs, merged = [], {}
        for p, g, fam, invs in self.pending:
            if fam in ('stale', 'late', 'random'):
                jobs.append((p, g, fam, invs))
                continue
            key = (g['tmode'], invs, bool(g.get('redis6')), g.get('cmds'), g.get('maxf'))
            n = sum(1 for _ in open(p))
            bins = merged.setdefault(key, [])
            for b in bins:
                if b['n'] + n <= 1500:
                    b['n'] += n
                    b['items'].append((p, g, fam))
                    break
            else:
                bins.append(dict(n=n, items=[(p, g, fam)]))
        for key, items in [(k, b['items']) for k, bins in merged.items() for b in bins]:
            if len(items) == 1:
                jobs.append((items[0][0], items[0][1], items[0][2], key[1]))
                continue
            self.n += 1
            sub = os.path.join(self.dir, 'm%d' % self.n)
            os.makedirs(sub)
            path = os.path.join(sub, 'cache-merged-%s.ndjson' % key[0])
            with open(path, 'w') as f:
                for p, g, fam in items:
                    for line in open(p):
                        if '"ev":"RESET"' in line:
                            d = json.loads(line)
                            d['name'] = '%s@@%s@@%s' % (d['name'], fam, self._gs(g))
                            line = json.dumps(d, separators=(',', ':')) + '\n'
                        f.write(line)
            jobs.append((path, items[0][1], 'merged', key[1]))
        return jobs

    def validate(self, par=5):
        with concurrent.futures.ThreadPoolExecutor(par) as ex:
            futs = [(p, ex.submit(self._validate_one, *p)) for p in self._merge()]
            for p, f in futs:
                for item in f.result():
                    kind = item[0]
                    if kind == 'run':
                        self.ctx.tlc_runs.append(item[1])
                        self.ctx.states += item[1]['distinct']
                        self.ctx.transitions += item[1]['generated']
                    elif kind == 'violation':
                        self.ctx.violation(item[1], item[2], item[3])
                    elif kind == 'inconclusive':
                        self.ctx.inconclusive.append(item[1])
        self.pending = []

    def _cfg(self, path, mode, bykey, invs, group=None, race=False):
        g = group or {}
        cfg = self.tmpl.replace('%MODE%', mode).replace('%BYKEY%', bykey).replace('%INVS%', invs)
        cfg = cfg.replace('%RACE%', 'TRUE' if race else 'FALSE')
        cfg = cfg.replace('%REDIS6%', 'TRUE' if g.get('redis6') else 'FALSE')
        cfg = cfg.replace('%CMDS%', g.get('cmds') or '"g", "h", "i"').replace('%MAXF%', str(g.get('maxf') or 14))
        open(path, 'w').write(cfg)
        return path

    def _tlc_trace(self, trace, mode, bykey, invs, tag, group=None, race=False):
        cfgp = self._cfg(trace + '.%s.cfg' % tag, mode, bykey, invs, group, race)
        r = _tlc_retry('CacheTrace', os.path.basename(cfgp), workers=1, timeout=1800, files=[cfgp], env={'VERIF_TRACE': trace})
        return r

    def _validate_one(self, trace, group, family, invs):
        out = []
        lines = open(trace).read().splitlines()
        gs = self._gs(group)

        def run_at(pos):
            """(start, end, name, family, group string) of the run that contains line pos (1-based)"""
            start = max(i for i in range(pos) if '"ev":"RESET"' in lines[i])
            end = next((i for i in range(pos, len(lines)) if '"ev":"RESET"' in lines[i]), len(lines))
            name = json.loads(lines[start])['name']
            if '@@' in name:
                return (start, end) + tuple(name.split('@@'))
            return start, end, name, family, gs
        invs_now = invs
        for attempt in range(3):
            r = self._tlc_trace(trace, group['tmode'], 'FALSE', invs_now, 'fixed%d' % attempt, group)
            out.append(('run', dict(r.summary(), trace_events=len(lines), family=family)))
            if r.ok:
                return out
            if r.violated:
                at = re.findall(r'/\\ l = (\d+)', r.output)
                fam_v, gs_v = run_at(min(int(at[-1]), len(lines)))[3:] if at else (family, gs)
                sig = 'cache-trace-invariant-%s family=%s %s' % (r.violated, fam_v, gs_v)
                what = ('a recorded behaviour of the real client, explained step by step by CacheTrace.tla, reaches a state '
                        'that violates %s\n%s' % (r.violated, r.output[-1800:]))
                out.append(('violation', sig, what, dict(trace=self._keep(trace))))
                rest = ' '.join(i for i in invs_now.split() if i != r.violated)
                if rest == invs_now or not rest:
                    return out
                invs_now = rest
                continue
            m = re.search(r'"REJECTED-AT",\s*(\d+),', r.output)
            if not m:
                out.append(('inconclusive', 'trace validation of %s failed to run: %s\n%s' % (
                    os.path.basename(trace), r.error, r.output[-2000:])))
                return out
            pos = int(m.group(1))
            ev = json.loads(lines[pos - 1])
            start, end, name, fam_r, gs_r = run_at(pos)
            one = trace + '.rejected%d.ndjson' % attempt
            open(one, 'w').write('\n'.join(lines[start:end]) + '\n')
            # is it the stale Cancel of DESIGN.md section 7 #16?  The specification of the code as it is explains it.
            r2 = self._tlc_trace(one, group['tmode'], 'TRUE', ASIS_INVS, 'asis%d' % attempt, group)
            out.append(('run', dict(r2.summary(), trace_events=end - start, family=family, note='as-is model')))
            cause = 'stale-cancel' if r2.ok else 'unexplained'
            if not r2.ok and 'store=adapter' in gs_r:
                # NewSimpleCacheAdapter as it is: Flight registers a flight without looking at the SimpleCache again
                r3 = self._tlc_trace(one, group['tmode'], 'TRUE', ASIS_INVS, 'race%d' % attempt, group, race=True)
                out.append(('run', dict(r3.summary(), trace_events=end - start, family=family, note='as-is model + RaceFlight')))
                if r3.ok:
                    cause = 'adapter-flight-race'
            result = ''
            if ev['ev'] == 'Ret':
                result = ' result=' + '+'.join(sorted({('hit' if x['hit'] else 'value') if x['t'] == 'val' else 'err:' + x['e']
                                                        for x in ev['res']}))
            sig = 'cache-trace-rejected event=%s%s cause=%s family=%s %s' % (ev['ev'], result, cause, fam_r, gs_r)
            what = ('run %s: no action of CacheProto.tla (CancelByKey = FALSE) explains recorded event #%d of the run: %s. '
                    % (name, pos - start, json.dumps({k: v for k, v in ev.items() if v not in (0, '', [], False)})))
            if cause == 'stale-cancel':
                what += ('The specification of the code as it is (Cancel keyed by (key, cmd)) does explain the run: an owner '
                         'whose context ended cancelled a flight opened later by another caller.')
            if cause == 'adapter-flight-race':
                what += ('The specification with RaceFlight = TRUE does explain the run: adapter.Flight registered a new flight '
                         '(a second request) although a completed, fresh entry existed -- its look-up under RLock ran before '
                         'the entry was completed, its registration under Lock re-reads only the flights map.')
            keep = self._keep(one)
            out.append(('violation', sig, what + '\n' + r.output[-800:], dict(trace=keep, run=name)))
            # go on with the runs after the rejected one
            rest = lines[:start] + lines[end:]
            if not rest or attempt == 2:
                return out
            lines = rest
            open(trace, 'w').write('\n'.join(lines) + '\n')
        return out

    def _keep(self, path):
        keep = os.path.join(vlib.VERIF, 'replays', self.ctx.pid)
        os.makedirs(keep, exist_ok=True)
        dst = os.path.join(keep, '%s-%s-%s' % (self.ctx.tier, os.path.basename(os.path.dirname(path)), os.path.basename(path)))
        shutil.copy(path, dst)
        return dst


ASSUMPTIONS = [
    'fakeredis implements the tracking semantics of Redis 7 (invalidation queued at the write, before the writer\'s reply; '
    'null invalidation on FLUSHALL; OPTIN/OPTOUT/BCAST) and MULTI/EXEC incl. EXECABORT',
    'one wire per server in the validated traces (PipelineMultiplex -1); multiplexed and cluster clients are checked '
    'through the predicted results only',
    'the order of the merged event log is a linear extension of happens-before (server events under the dispatcher '
    'mutex, driver events before the call / after the return, callbacks after taking the dispatcher mutex once)',
]
