"""C06 / C09 / C11 (server-assisted client-side caching end to end): CacheProto.tla model checking and negative
configs, TLC-generated behaviours replayed on the real client by harness/cmd/cachedrv (spec -> code, the specification's
predicted outcome is the oracle), seeded random histories, every recorded trace validated against CacheTrace.tla
(code -> spec)."""
import concurrent.futures, json, os, re, shutil, tempfile, threading, time
from lib import vlib

FAMILY = 'cacheproto'

# the findings of this family are kept next to it until they are merged into known_findings.json
_load_known = vlib.load_known


def _load_known_with_proposed():
    known = list(_load_known())
    p = os.path.join(vlib.VERIF, 'proposed', 'known_findings_cache.json')
    if os.path.exists(p):
        known += [k for k in json.load(open(p)) if k not in known]
    return known


vlib.load_known = _load_known_with_proposed
ALL_INVS = ('TypeOK NoStaleHit Positional NoHole SingleFlight FailedFlightNotCached WaitersGetFlightOutcome '
            'CancelledByOwner NoLostWaiter PendingHasOwner')
ASIS_INVS = 'TypeOK NoStaleHit Positional NoHole FailedFlightNotCached NoLostWaiter PendingHasOwner'


# ------------------------------------------------------------------------------------------------- TLC
def _tlc_retry(module, cfg, **kw):
    """Other builders share the machine and may pkill TLC: a run that ended without verdict is repeated."""
    r = None
    for _ in range(3):
        r = vlib.tlc(FAMILY, module, cfg, **kw)
        if r.finished or r.violated or (r.error and 'timeout' in r.error) or 'REJECTED-AT' in r.output \
                or 'Postcondition' in r.output:
            return r
        # (a parse failure of modules that parsed a minute ago is an environment hiccup -- /tmp of the JVM -- as well)
    return r


def model(ctx, jobs, workers=3, par=5, timeout=900):
    """jobs: (cfg, expected violated invariant or None). Runs them concurrently, books them like Ctx.run_tlc."""
    if os.environ.get('VERIF_CACHE_SKIP_MODEL'):   # mutation self-tests only: the model does not depend on the repository
        ctx.notes.append('model checking skipped (VERIF_CACHE_SKIP_MODEL)')
        return
    with concurrent.futures.ThreadPoolExecutor(par) as ex:
        futs = [(cfg, exp, ex.submit(_tlc_retry, 'CacheProto', cfg, workers=workers, timeout=timeout)) for cfg, exp in jobs]
        for cfg, exp, f in futs:
            r = f.result()
            ctx.tlc_runs.append(r.summary())
            ctx.states += r.distinct
            ctx.transitions += r.generated
            if exp is not None:
                if r.violated != exp:
                    ctx.inconclusive.append('negative config cache/%s: expected violation of %s, got %s %s' % (
                        cfg, exp, r.violated, r.error or ''))
            elif not r.ok:
                ctx.inconclusive.append('TLC cache/CacheProto %s: violated=%s error=%s\n%s' % (
                    cfg, r.violated, r.error, r.output[-2500:]))


def generate(ctx, cfg, family, simulate=None, depth=70, seed=None, timeout=1800, limit=None):
    """Behaviours of CacheGen (CASE lines) as scenario dicts for the driver."""
    kw = dict(collect_cases=True, timeout=timeout)
    if simulate:
        kw.update(simulate=simulate, depth=depth, seed=(seed if seed is not None else ctx.seed))
    else:
        kw.update(workers=1)
    r = _tlc_retry('CacheGen', cfg, **kw)
    ctx.tlc_runs.append(dict(r.summary(), cases=len(r.cases)))
    ctx.states += r.distinct
    ctx.transitions += r.generated
    if r.error or not r.finished:
        ctx.inconclusive.append('generation cache/%s failed: %s\n%s' % (cfg, r.error, r.output[-1500:]))
    seen, out = set(), []
    for c in r.cases:
        key = json.dumps(c['steps'], sort_keys=True)
        if key in seen:
            continue
        seen.add(key)
        out.append(dict(name='%s-%d' % (family, len(out) + 1), steps=c['steps'], flags=c.get('flags', [])))
        if limit and len(out) >= limit:
            break
    return out


def interesting(case):
    """simulation produces many short behaviours; keep those in which something can go wrong"""
    acts = [s['a'] for s in case['steps']]
    calls = [s for s in case['steps'] if s['a'] == 'call']
    return any(a in acts for a in ('rinv', 'ctx', 'cut', 'expire', 'cancelgo')) or \
        any(s.get('fail') or 'wait' in s.get('slots', []) or 'hit' in s.get('slots', []) for s in calls)


# ------------------------------------------------------------------------------------------------- driver + traces
class Runner:
    def __init__(self, ctx):
        self.ctx = ctx
        self.bin = vlib.build('cachedrv')
        self.dir = tempfile.mkdtemp(prefix='verif-cache-', dir=vlib.SCRATCH_ROOT)
        self.n = 0
        self.tmpl = open(os.path.join(vlib.SPEC, FAMILY, 'Trace.cfg.tmpl')).read()
        self.pending = []   # (tracefile, group dict, family, invs)
        self.lock = threading.Lock()

    def close(self):
        shutil.rmtree(self.dir, ignore_errors=True)

    def _drive(self, args, timeout=900):
        """run_driver is not re-entrant: absorb under a lock"""
        sub = vlib.Ctx(self.ctx.pid, self.ctx.tier, self.ctx.seed, self.ctx.level)
        rep = sub.run_driver(self.bin, args, timeout=timeout)
        with self.lock:
            if rep is not None:
                self.ctx.absorb(rep)
            self.ctx.inconclusive += [i for i in sub.inconclusive if rep is None or i not in (rep.get('inconclusive') or [])]
        return rep

    def scen(self, cases, family, tmode='optin', store='lru', client='single', flavor='str', api='plain', gate='',
             invs=ALL_INVS, par=8, max_runs=None, shards=1, validate=True):
        """Replays the behaviours on the real client.  Clients with several wires run one world per process (the
        hooks of goroutines spawned inside the client are attributed to it), hence the shards."""
        if not cases:
            return
        if client != 'single':
            shards = max(shards, min(6, (len(cases) + 19) // 20))
        group = dict(tmode=tmode, store=store, client=client, flavor=flavor, api=api)
        jobs = []
        for sh in range(shards):
            part = cases[sh::shards]
            if not part:
                continue
            self.n += 1
            sub = os.path.join(self.dir, 'g%d' % self.n)
            os.makedirs(sub)
            cf = os.path.join(sub, 'cases.ndjson')
            with open(cf, 'w') as f:
                for c in part:
                    f.write(json.dumps(dict(name=c['name'], steps=c['steps'])) + '\n')
            args = ['-mode', 'scen', '-cases', cf, '-tracedir', sub, '-tmode', tmode, '-store', store, '-client', client,
                    '-flavor', flavor, '-api', api, '-par', str(par)]
            if gate:
                args += ['-gate', gate]
            jobs.append((sub, args))
        if len(jobs) == 1:
            self._drive(jobs[0][1])
        else:
            with concurrent.futures.ThreadPoolExecutor(len(jobs)) as ex:
                list(ex.map(lambda j: self._drive(j[1]), jobs))
        if validate and client == 'single':
            for sub, _ in jobs:
                self._collect(sub, group, family, invs, max_runs)

    def random(self, runs, family='random', tmode='optin', store='lru', flavor='str', api='plain', invs=ALL_INVS, par=4):
        self.n += 1
        sub = os.path.join(self.dir, 'g%d' % self.n)
        os.makedirs(sub)
        args = ['-mode', 'random', '-runs', str(runs), '-tracedir', sub, '-tmode', tmode, '-store', store,
                '-flavor', flavor, '-api', api, '-par', str(par)]
        self._drive(args)
        self._collect(sub, dict(tmode=tmode, store=store, client='single', flavor=flavor, api=api), family, invs, None)

    def _collect(self, sub, group, family, invs, max_runs):
        for f in os.listdir(sub):
            if f.endswith('.ndjson') and f.startswith('cache-'):
                p = os.path.join(sub, f)
                if max_runs:   # validate the first max_runs runs only (every run was already compared with its prediction)
                    lines, runs, keep = open(p).read().splitlines(), 0, []
                    for l in lines:
                        if '"ev":"RESET"' in l:
                            runs += 1
                            if runs > max_runs:
                                break
                        keep.append(l)
                    open(p, 'w').write('\n'.join(keep) + '\n')
                with self.lock:
                    self.pending.append((p, group, family, invs))

    # ---- validation of everything recorded so far, concurrently
    def validate(self, par=5):
        with concurrent.futures.ThreadPoolExecutor(par) as ex:
            futs = [(p, ex.submit(self._validate_one, *p)) for p in self.pending]
            for p, f in futs:
                for item in f.result():
                    kind = item[0]
                    if kind == 'run':
                        self.ctx.tlc_runs.append(item[1])
                        self.ctx.states += item[1]['distinct']
                        self.ctx.transitions += item[1]['generated']
                    elif kind == 'violation':
                        self.ctx.violation(item[1], item[2], item[3])
                    elif kind == 'inconclusive':
                        self.ctx.inconclusive.append(item[1])
        self.pending = []

    def _cfg(self, path, mode, bykey, invs):
        cfg = self.tmpl.replace('%MODE%', mode).replace('%BYKEY%', bykey).replace('%INVS%', invs)
        open(path, 'w').write(cfg)
        return path

    def _tlc_trace(self, trace, mode, bykey, invs, tag):
        cfgp = self._cfg(trace + '.%s.cfg' % tag, mode, bykey, invs)
        r = _tlc_retry('CacheTrace', os.path.basename(cfgp), workers=1, timeout=900, files=[cfgp], env={'VERIF_TRACE': trace})
        return r

    def _validate_one(self, trace, group, family, invs):
        out = []
        lines = open(trace).read().splitlines()
        gs = 'mode=%(tmode)s store=%(store)s flavor=%(flavor)s api=%(api)s' % group
        invs_now = invs
        for attempt in range(3):
            r = self._tlc_trace(trace, group['tmode'], 'FALSE', invs_now, 'fixed%d' % attempt)
            out.append(('run', dict(r.summary(), trace_events=len(lines), family=family)))
            if r.ok:
                return out
            if r.violated:
                sig = 'cache-trace-invariant-%s family=%s %s' % (r.violated, family, gs)
                what = ('a recorded behaviour of the real client, explained step by step by CacheTrace.tla, reaches a state '
                        'that violates %s\n%s' % (r.violated, r.output[-1800:]))
                out.append(('violation', sig, what, dict(trace=self._keep(trace))))
                rest = ' '.join(i for i in invs_now.split() if i != r.violated)
                if rest == invs_now or not rest:
                    return out
                invs_now = rest
                continue
            m = re.search(r'"REJECTED-AT",\s*(\d+),', r.output)
            if not m:
                out.append(('inconclusive', 'trace validation of %s failed to run: %s\n%s' % (
                    os.path.basename(trace), r.error, r.output[-2000:])))
                return out
            pos = int(m.group(1))
            ev = json.loads(lines[pos - 1])
            start = max(i for i in range(pos) if json.loads(lines[i])['ev'] == 'RESET')
            end = next((i for i in range(pos, len(lines)) if json.loads(lines[i])['ev'] == 'RESET'), len(lines))
            name = json.loads(lines[start])['name']
            one = trace + '.rejected%d.ndjson' % attempt
            open(one, 'w').write('\n'.join(lines[start:end]) + '\n')
            # is it the stale Cancel of DESIGN.md section 7 #16?  The specification of the code as it is explains it.
            r2 = self._tlc_trace(one, group['tmode'], 'TRUE', ASIS_INVS, 'asis%d' % attempt)
            out.append(('run', dict(r2.summary(), trace_events=end - start, family=family, note='as-is model')))
            cause = 'stale-cancel' if r2.ok else 'unexplained'
            result = ''
            if ev['ev'] == 'Ret':
                result = ' result=' + '+'.join(sorted({('hit' if x['hit'] else 'value') if x['t'] == 'val' else 'err:' + x['e']
                                                        for x in ev['res']}))
            sig = 'cache-trace-rejected event=%s%s cause=%s family=%s %s' % (ev['ev'], result, cause, family, gs)
            what = ('run %s: no action of CacheProto.tla (CancelByKey = FALSE) explains recorded event #%d of the run: %s. '
                    % (name, pos - start, json.dumps({k: v for k, v in ev.items() if v not in (0, '', [], False)})))
            if cause == 'stale-cancel':
                what += ('The specification of the code as it is (Cancel keyed by (key, cmd)) does explain the run: an owner '
                         'whose context ended cancelled a flight opened later by another caller.')
            keep = self._keep(one)
            out.append(('violation', sig, what + '\n' + r.output[-800:], dict(trace=keep, run=name)))
            # go on with the runs after the rejected one
            rest = lines[:start] + lines[end:]
            if not rest or attempt == 2:
                return out
            lines = rest
            open(trace, 'w').write('\n'.join(lines) + '\n')
        return out

    def _keep(self, path):
        keep = os.path.join(vlib.VERIF, 'replays', self.ctx.pid)
        os.makedirs(keep, exist_ok=True)
        dst = os.path.join(keep, '%s-%s-%s' % (self.ctx.tier, os.path.basename(os.path.dirname(path)), os.path.basename(path)))
        shutil.copy(path, dst)
        return dst


ASSUMPTIONS = [
    'fakeredis implements the tracking semantics of Redis 7 (invalidation queued at the write, before the writer\'s reply; '
    'null invalidation on FLUSHALL; OPTIN/OPTOUT/BCAST) and MULTI/EXEC incl. EXECABORT',
    'one wire per server in the validated traces (PipelineMultiplex -1); multiplexed and cluster clients are checked '
    'through the predicted results only',
    'the order of the merged event log is a linear extension of happens-before (server events under the dispatcher '
    'mutex, driver events before the call / after the return, callbacks after taking the dispatcher mutex once)',
]
