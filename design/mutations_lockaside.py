#!/usr/bin/env python3
"""Self-test by mutation for C34 / C39 (AGENT_GUIDE item 7).  usage: mutations_lockaside.py <repo> <name>
Applies one realistic defect to the working tree of <repo> (undo with `git checkout -- .`). Each compiles and leaves the
offline test-suites as they were; the quick check of the named property must exit 1 with it."""
import sys

M = {}


def mut(prop, path):
    def deco(f):
        M[f.__name__] = (prop, path, f)
        return f
    return deco


def rep(s, old, new, count=1):
    assert old in s, old
    return s.replace(old, new, count)


# ------------------------------------------------------------------------------------------------ C34 rueidislock
@mut('C34', 'rueidislock/lock.go')
def extend_without_token(s):
    """the extend script prolongs whatever is stored under the key"""
    return rep(s, '`if redis.call("GET",KEYS[1]) == ARGV[1] then local r = redis.call("PEXPIREAT",KEYS[1],ARGV[2]);redis.call("GET",KEYS[1]);return r end;return 0`',
               '`local r = redis.call("PEXPIREAT",KEYS[1],ARGV[2]);redis.call("GET",KEYS[1]);return r`')


@mut('C34', 'rueidislock/lock.go')
def cancel_one_key_late(s):
    """cancel() only after more than a majority of keys is gone"""
    s = rep(s, 'if atomic.AddInt32(&lost, 1) >= m.majority {', 'if atomic.AddInt32(&lost, 1) > m.majority {')
    return rep(s, 'released >= m.majority {', 'released > m.majority {')


@mut('C34', 'rueidislock/lock.go')
def invalidation_does_not_wake_waiters(s):
    """onInvalidations signals the per-key channel but not the gate: waiters miss the release"""
    return rep(s, '''					select {
					case g.csc[n] <- struct{}{}:
					default:
					}
					select {
					case g.ch <- struct{}{}:
					default:
					}''', '''					select {
					case g.csc[n] <- struct{}{}:
					default:
					}''')


@mut('C34', 'rueidislock/lock.go')
def delkey_before_cancel(s):
    """the defect repaired by 91dd4ef: delete first, count and cancel afterwards"""
    s = rep(s, '''		if atomic.AddInt32(&lost, 1) >= m.majority {
			cancel()
		}
''', '''		atomic.AddInt32(&lost, 1)
''')
    return rep(s, '			<-ctx.Done()\n', '')


@mut('C34', 'rueidislock/lock.go')
def no_retry_timer(s):
    """the defect repaired by 3667914: park without a timer whatever the error of the try was"""
    return rep(s, 'if m.nocsc || !errors.Is(err, ErrNotLocked) {', 'if m.nocsc {')


@mut('C34', 'rueidislock/lock.go')
def no_local_handoff(s):
    """the defect repaired by 809a483: a failed try that gave up keys does not signal the gate, a leaving waiter keeps the token"""
    s = rep(s, 'if g.w > 1 && m.gates != nil {', 'if false && g.w > 1 && m.gates != nil {')
    return rep(s, '''			} else if m.gates != nil {
				// this waiter may have swallowed a wake-up meant for the others: hand it on
				select {
				case g.ch <- struct{}{}:
				default:
				}
			}''', '''			}''')


@mut('C34', 'rueidislock/lock.go')
def acquire_without_nx(s):
    """the acquire script overwrites a held key"""
    return rep(s, '`local r = redis.call("SET",KEYS[1],ARGV[1],"NX","PXAT",ARGV[2]);redis.call("GET",KEYS[1]);return r`',
               '`local r = redis.call("SET",KEYS[1],ARGV[1],"PXAT",ARGV[2]);redis.call("GET",KEYS[1]);return r`')


# ------------------------------------------------------------------------------------------------ C39 rueidisaside
@mut('C39', 'rueidisaside/aside.go')
def placeholder_on_timeout(s):
    """Get hands out the lock placeholder when the wait for the holder times out"""
    s = rep(s, '		val = ""\n		if err == nil {', '		if err == nil {')
    return rep(s, '''			case <-ctx.Done():
				return "", ctx.Err()''', '''			case <-ctx.Done():
				return val, ctx.Err()''')


@mut('C39', 'rueidisaside/aside.go')
def liveness_not_checked(s):
    """a foreign lock is deleted without looking at the holder's liveness key"""
    return rep(s, '''		err = c.client.DoCache(ctx, c.client.B().Get().Key(val).Cache(), c.ttl).Error()
		if rueidis.IsRedisNil(err) {''', '''		err = c.client.DoCache(ctx, c.client.B().Get().Key(val).Cache(), c.ttl).Error()
		if rueidis.IsRedisNil(err) || err == nil {''')


@mut('C39', 'rueidisaside/aside.go')
def delkey_without_compare(s):
    """the delkey script deletes whatever is stored"""
    return rep(s, '`if redis.call("GET",KEYS[1]) == ARGV[1] then return redis.call("DEL",KEYS[1]) else return 0 end`',
               '`return redis.call("DEL",KEYS[1])`')


@mut('C39', 'rueidisaside/aside.go')
def setkey_without_compare(s):
    """the setkey script stores the loaded value even when the lock is gone (overwrites newer data)"""
    return rep(s, '`if redis.call("GET",KEYS[1]) == ARGV[1] then return redis.call("SET",KEYS[1],ARGV[2],"PX",ARGV[3]) else return 0 end`',
               '`return redis.call("SET",KEYS[1],ARGV[2],"PX",ARGV[3])`')


@mut('C39', 'rueidisaside/aside.go')
def returns_lock_value(s):
    """the value found under the key by SET NX GET is returned without the placeholder test"""
    return rep(s, '	if strings.HasPrefix(val, PlaceholderPrefix) {\n		ph := c.register(val)', '	if strings.HasPrefix(val, PlaceholderPrefix) && resp.Error() == nil {\n		ph := c.register(val)')


if __name__ == '__main__':
    if len(sys.argv) < 3:
        for k, (p, path, f) in M.items():
            print('%-36s %s  %s' % (k, p, f.__doc__))
        sys.exit(0)
    repo, name = sys.argv[1], sys.argv[2]
    prop, path, f = M[name]
    p = repo.rstrip('/') + '/' + path
    src = open(p).read()
    out = f(src)
    open(p, 'w').write(out)
    print(prop)
