"""Mutation self-test of C47 round 2 (credential composition, error-text handling in _newPipe).
usage: python3 design/mutations_setup2.py <cases.ndjson> [mutant-prefix ...]
<cases.ndjson> = CASE records of spec/client/Gen_setup_quick.cfg (vlib.tlc(..., collect_cases=True) + vlib.write_ndjson).
Applies one mutant at a time to ../repo, builds sessiondrv, restores the tree (git checkout -- .) and replays the cases."""
import subprocess,sys,os,json,collections,tempfile
VERIF=os.path.dirname(os.path.dirname(os.path.abspath(__file__)))
REPO=os.path.join(os.path.dirname(VERIF),'repo')
TMP=tempfile.mkdtemp(prefix='verif-mut-setup2-',dir='/var/tmp')
CASES=os.path.abspath(sys.argv[1])
env=dict(os.environ,GOFLAGS='-mod=mod',GOPROXY='off',GOSUMDB='off',GOTOOLCHAIN='local')
MUTS={
 'A-user-only-from-provider': [('pipe.go','		password = authCredentials.Password\n','')],
 'B-provider-ignored-when-static-set': [('pipe.go','		username = authCredentials.Username\n		password = authCredentials.Password\n','		if option.Username == "" && option.Password == "" {\n			username = authCredentials.Username\n			password = authCredentials.Password\n		}\n')],
 'C-sentinel-keeps-main-credentials-when-sentinel-empty': [('sentinel.go','	o.Username = o.Sentinel.Username\n	o.Password = o.Sentinel.Password\n','	if o.Sentinel.Username != "" || o.Sentinel.Password != "" {\n		o.Username = o.Sentinel.Username\n		o.Password = o.Sentinel.Password\n	}\n')],
 'D-resp2-loop-tolerates-NOAUTH': [('pipe.go','					if re, ok := err.(*RedisError); ok && noHello.MatchString(re.string()) {\n','					if re, ok := err.(*RedisError); ok && (noHello.MatchString(re.string()) || strings.HasPrefix(re.string(), "NOAUTH")) {\n')],
 'E-resp3-loop-skips-LOADING': [('pipe.go','				if re, ok := err.(*RedisError); ok {\n					if !r2 && noHello','				if re, ok := err.(*RedisError); ok {\n					if re.IsLoading() {\n						continue\n					}\n					if !r2 && noHello')],
 'F-noHello-matches-any-unknown-command': [('pipe.go','regexp.MustCompile("unknown command .?(HELLO|hello).?")','regexp.MustCompile("unknown command .?")')],
 'G-READONLY-tolerated-by-text': [('pipe.go','				if init[i][0] == "READONLY" {\n					// ignore READONLY command error\n					continue\n				}\n				if re, ok := err.(*RedisError); ok {','				if re, ok := err.(*RedisError); ok && strings.HasPrefix(re.string(), "READONLY") {\n					continue\n				}\n				if re, ok := err.(*RedisError); ok {')],
 'H-provider-username-needs-password': [('pipe.go','	} else if username != "" {\n		helloCmd = append(helloCmd, "AUTH", username, password)','	} else if username != "" && password != "" {\n		helloCmd = append(helloCmd, "AUTH", username, password)')],
 'I-client-error-with-WRONGPASS-not-nocache': [('pipe.go','					} else if init[i][0] == "CLIENT" {','					} else if init[i][0] == "CLIENT" && !strings.HasPrefix(re.string(), "NOPERM") {')],
}
only=sys.argv[2:]
for name,edits in MUTS.items():
    if only and not any(name.startswith(o) for o in only): continue
    try:
        for f,a,b in edits:
            p=os.path.join(REPO,f); s=open(p).read()
            assert s.count(a)==1,(name,f,s.count(a))
            open(p,'w').write(s.replace(a,b))
        r=subprocess.run(['go1.26','build','-tags','verif','-o',os.path.join(TMP,'drv-mut'),'./cmd/sessiondrv'],cwd=os.path.join(VERIF,'harness'),env=env,capture_output=True,text=True)
        if r.returncode: print(name,'BUILD FAILED',r.stderr[-500:]); continue
    finally:
        subprocess.run(['git','checkout','--','.'],cwd=REPO)
    subprocess.run([os.path.join(TMP,'drv-mut'),'-mode','setup','-cases',CASES,'-workers','6','-out',os.path.join(TMP,'rep.json')],env=env)
    rep=json.load(open(os.path.join(TMP,'rep.json')))
    v=rep.get('violations') or []
    print('%s: %s violations=%d suppressed=%s inconclusive=%s' % (name,'CAUGHT' if v else 'MISSED',len(v),(rep.get('extra') or {}).get('suppressed_violations'),rep.get('inconclusive')))
    for s in list(collections.OrderedDict((x['signature'],1) for x in v))[:2]: print('    ',s)
import shutil
shutil.rmtree(TMP,ignore_errors=True)
