#!/usr/bin/env python3
"""Self-test by mutation for the failure / cancellation / retry family (C03, C04, C05, C28).

usage: proposed/mutations_faults.py [-j N] [name ...]

Each mutation is applied to a *copy* of the sandbox (<ws>/mut/<name>/{repo,verif}; the harness reaches the library through
the relative replace ../../repo), `go build ./...` must succeed, then the quick check(s) named for the mutation are run
there.  A mutation is "kept" when every named check exits 1."""
import os, shutil, subprocess, sys, json
from concurrent.futures import ThreadPoolExecutor

VERIF = os.path.dirname(os.path.dirname(os.path.abspath(__file__)))
WS = os.path.dirname(VERIF)
ENV = dict(os.environ, GOFLAGS='-mod=mod', GOPROXY='off', GOSUMDB='off', GOTOOLCHAIN='local')

# name -> (file, old, new, checks, what)
MUTATIONS = {
 'ignore-retryable': ('client.go',
    'if c.retry && cmd.IsRetryable() && c.isRetryable(err, ctx) {\n\t\t\tif c.retryHandler.WaitOrSkipRetry(ctx, attempts, cmd, err) {',
    'if c.retry && c.isRetryable(err, ctx) {\n\t\t\tif c.retryHandler.WaitOrSkipRetry(ctx, attempts, cmd, err) {',
    ['C28', 'C03'], 'singleClient.Do retries without looking at IsRetryable()'),
 'retry-error-replies': ('client.go',
    'func (c *singleClient) isRetryable(err error, ctx context.Context) bool {\n\tif err == nil || err == Nil || err == ErrDoCacheAborted || atomic.LoadUint32(&c.stop) != 0 || ctx.Err() != nil {\n\t\treturn false\n\t}\n\tif err, ok := err.(*RedisError); ok {\n\t\treturn err.IsLoading()\n\t}',
    'func (c *singleClient) isRetryable(err error, ctx context.Context) bool {\n\tif err == nil || err == Nil || err == ErrDoCacheAborted || atomic.LoadUint32(&c.stop) != 0 || ctx.Err() != nil {\n\t\treturn false\n\t}\n\tif _, ok := err.(*RedisError); ok {\n\t\treturn true\n\t}',
    ['C28'], 'singleClient.isRetryable treats every error reply like LOADING'),
 'retry-after-ctx-done': ('client.go',
    'func (c *singleClient) isRetryable(err error, ctx context.Context) bool {\n\tif err == nil || err == Nil || err == ErrDoCacheAborted || atomic.LoadUint32(&c.stop) != 0 || ctx.Err() != nil {',
    'func (c *singleClient) isRetryable(err error, ctx context.Context) bool {\n\tif err == nil || err == Nil || err == ErrDoCacheAborted || atomic.LoadUint32(&c.stop) != 0 {',
    ['C28', 'C05'], 'singleClient.isRetryable no longer looks at ctx.Err()'),
 'no-drain-after-exit': ('pipe.go',
    '\tfor p.loadWaits() != 0 {\n\t\tselect {\n\t\tcase <-p.close: // p.queue.NextWriteCmd() can only be called after _backgroundWrite',
    '\tfor p.loadWaits() != 0 && p.cache == nil && p.cache != nil {\n\t\tselect {\n\t\tcase <-p.close: // p.queue.NextWriteCmd() can only be called after _backgroundWrite',
    ['C04'], '_background does not fail the queued calls after _exit'),
 'no-deferred-error': ('pipe.go',
    '\t\tif err != nil && ff < len(multi) {\n\t\t\tfor ; ff < len(resps); ff++ {',
    '\t\tif err != nil && ff < len(multi) && ff > len(multi) {\n\t\t\tfor ; ff < len(resps); ff++ {',
    ['C04'], "the reader's deferred error delivery to the partially fulfilled call is gone"),
 'close-keeps-conn-when-blocking': ('pipe.go',
    '\tif p.conn != nil {\n\t\tp.conn.Close()\n\t}\n\tif p.r2p != nil {',
    '\tif p.conn != nil && block == 1 {\n\t\tp.conn.Close()\n\t}\n\tif p.r2p != nil {',
    ['C04'], 'pipe.Close leaves the connection open when a blocking command is pending'),
 'cache-wait-ignores-ctx': ('lru.go',
    '\tif ch := ctx.Done(); ch == nil {\n\t\t<-e.ch',
    '\tif ch := ctx.Done(); ch == nil || e != nil {\n\t\t<-e.ch',
    ['C05'], 'cacheEntry.Wait ignores the context'),
 'flowbuffer-put-ignores-ctx': ('flowbuffer.go',
    'func (b *flowBuffer) PutOne(ctx context.Context, m Completed) (chan RedisResult, error) {\n\tselect {\n\tcase cmd := <-b.f:\n\t\tcmd.one = m\n\t\tvhook("fb.put.got", b, 0, 0)\n\t\tb.w <- cmd\n\t\tvhook("fb.put.sent", b, 0, 0)\n\t\treturn cmd.ch, nil\n\tcase <-ctx.Done():',
    'func (b *flowBuffer) PutOne(ctx context.Context, m Completed) (chan RedisResult, error) {\n\tselect {\n\tcase cmd := <-b.f:\n\t\tcmd.one = m\n\t\tvhook("fb.put.got", b, 0, 0)\n\t\tb.w <- cmd\n\t\tvhook("fb.put.sent", b, 0, 0)\n\t\treturn cmd.ch, nil\n\tcase <-context.Background().Done():',
    ['C05'], 'flowBuffer.PutOne ignores the context while it waits for room'),
 'batch-negdelay-unfixed': ('cluster.go',
    '\t\t\t\tretryDelay = c.retryHandler.RetryDelay(attempts, cm, resp.Error())\n\t\t\t\tif retryDelay < 0 {\n\t\t\t\t\tcontinue',
    '\t\t\t\tretryDelay = c.retryHandler.RetryDelay(attempts, cm, resp.Error())\n\t\t\t\tif retryDelay < -1 {\n\t\t\t\t\tcontinue',
    ['C28'], 'the repair of #14 is taken out again (doresultfn keeps entries whose RetryDelay was negative)'),
 'cluster-close-async': ('cluster.go',
    '\tc.mu.RUnlock()\n\twg.Wait()\n}',
    '\tc.mu.RUnlock()\n}',
    ['C28'], 'clusterClient.Close returns before its connections are closed again'),
 'entry-race-unfixed': ('pipe.go',
    'if left := p.decrWaitsAndIncrRecvs(); (state == 0 || waits == 1) && left != 0 {\n\t\tp.background()\n\t}\n\treturn resp\n\nqueue:\n\tch, err := p.queue.PutOne(ctx, cmd)',
    'if left := p.decrWaitsAndIncrRecvs(); state == 0 && left != 0 {\n\t\tp.background()\n\t}\n\treturn resp\n\nqueue:\n\tch, err := p.queue.PutOne(ctx, cmd)',
    ['C04'], 'the repair of the Do/Close entry race is taken out again'),
}


def run_one(name):
    file, old, new, checks, what = MUTATIONS[name]
    d = os.path.join(WS, 'mut', name)
    shutil.rmtree(d, ignore_errors=True)
    os.makedirs(d)
    shutil.copytree(os.path.join(WS, 'repo'), os.path.join(d, 'repo'), ignore=shutil.ignore_patterns('.git'))
    shutil.copytree(VERIF, os.path.join(d, 'verif'), ignore=shutil.ignore_patterns('.build', 'replays', 'evidence', '__pycache__'))
    p = os.path.join(d, 'repo', file)
    s = open(p).read()
    if s.count(old) != 1:
        return name, 'patch does not apply (%d matches)' % s.count(old), {}
    open(p, 'w').write(s.replace(old, new))
    b = subprocess.run(['go1.26', 'build', './...'], cwd=os.path.join(d, 'repo'), env=ENV, stdout=subprocess.PIPE, stderr=subprocess.STDOUT, text=True)
    if b.returncode != 0:
        return name, 'does not compile: ' + b.stdout[-400:], {}
    res = {}
    for c in checks:
        r = subprocess.run([os.path.join(d, 'verif', 'bin', 'check'), c], cwd=os.path.join(d, 'verif'), env=ENV,
                           stdout=subprocess.PIPE, stderr=subprocess.STDOUT, text=True)
        sigs = [l.strip() for l in r.stdout.splitlines() if l.strip().startswith('signature:')]
        res[c] = dict(exit=r.returncode, signatures=sigs[:4], tail=r.stdout[-600:] if r.returncode != 1 else '')
    kept = all(v['exit'] == 1 for v in res.values())
    shutil.rmtree(d, ignore_errors=True)
    return name, 'kept' if kept else 'MISSED', res


def main():
    args = sys.argv[1:]
    jobs = 2
    if args[:1] == ['-j']:
        jobs = int(args[1])
        args = args[2:]
    names = args or list(MUTATIONS)
    with ThreadPoolExecutor(max_workers=jobs) as ex:
        for name, verdict, res in ex.map(run_one, names):
            print('%-34s %s' % (name, verdict))
            for c, v in res.items():
                print('    %s exit=%s %s' % (c, v['exit'], '; '.join(v['signatures'])))
                if v['tail']:
                    print('      ' + v['tail'].replace('\n', '\n      '))
            sys.stdout.flush()


main()
