#!/usr/bin/env python3
"""Round-2 self-test of the C07 "fill" part (CacheFill.tla + storedrv -mode fill + CacheTtlObs.tla).
Each mutation is applied alone to $WS/repo, the fill part of the quick check is run (the same functions bin/check C07
runs, without the store-level parts, to keep a loop over all mutations short), the tree is restored.
usage: design/mutations_store2.py [name ...]        (from $WS/verif)"""
import os, subprocess, sys, tempfile, shutil
HERE = os.path.dirname(os.path.abspath(__file__))
sys.path.insert(0, os.path.join(HERE, '..'))
from lib import vlib
from checks import storecommon

REPO = os.path.abspath(os.path.join(HERE, '..', '..', 'repo'))

# (name, file, old, new, what)
MUT = [
    ('r1-zero-is-none', 'pipe.go',
     '''				if pttl := msg.values()[ci-1].intlen; pttl >= 0 {''',
     '''				if pttl := msg.values()[ci-1].intlen; pttl > 0 {''', 'seeded C07/2: reader ignores PTTL 0 (standard branch)'),
    ('r2-mget-zero-is-none', 'pipe.go',
     '''					if pttl := msg.values()[i].intlen; pttl >= 0 {''',
     '''					if pttl := msg.values()[i].intlen; pttl > 0 {''', 'reader ignores PTTL 0 (MGET branch)'),
    ('r3-minus-one-applies', 'pipe.go',
     '''				if pttl := msg.values()[ci-1].intlen; pttl >= 0 {''',
     '''				if pttl := msg.values()[ci-1].intlen; pttl >= -1 {''', 'reader applies PTTL -1 (no expiry) as an expiry'),
    ('r4-seconds', 'pipe.go',
     '''					cp.setExpireAt(now.Add(time.Duration(pttl) * time.Millisecond).UnixMilli())
				}
				msg.values()[ci].setExpireAt''',
     '''					cp.setExpireAt(now.Add(time.Duration(pttl) * time.Second).UnixMilli())
				}
				msg.values()[ci].setExpireAt''', 'reader takes the PTTL answer for seconds'),
    ('r5-mget-first-pttl', 'pipe.go',
     '''					if pttl := msg.values()[i].intlen; pttl >= 0 {''',
     '''					if pttl := msg.values()[0].intlen; pttl >= 0 {''', 'MGET branch pairs every key with the first PTTL answer'),
    ('p1-multi-lru-probe-arg1', 'pipe.go',
     '''				ck, _ := cmds.CacheKey(ct.Cmd)
				cmds.ClearStaticTTL(&ct.Cmd)''',
     '''				ck := ct.Cmd.Commands()[1]
				cmds.ClearStaticTTL(&ct.Cmd)''', 'seeded C07/3: DoMultiCache (lru branch) probes Commands()[1]'),
    ('p2-docache-probe-arg1', 'pipe.go',
     '''		cmds.MultiCmd,
		cmds.NewCompleted([]string{"PTTL", ck}),
		Completed(cmd),''',
     '''		cmds.MultiCmd,
		cmds.NewCompleted([]string{"PTTL", cmd.Commands()[1]}),
		Completed(cmd),''', 'DoCache probes Commands()[1]'),
    ('p3-multi-adapter-probe-arg1', 'pipe.go',
     '''				cmds.ClearStaticTTL(&ct.Cmd)
				missing = append(missing, p.optInCmd(), cmds.MultiCmd, cmds.NewCompleted([]string{"PTTL", ck}), Completed(ct.Cmd), cmds.ExecCmd)
			}
		}
	}

	var resp''',
     '''				cmds.ClearStaticTTL(&ct.Cmd)
				missing = append(missing, p.optInCmd(), cmds.MultiCmd, cmds.NewCompleted([]string{"PTTL", ct.Cmd.Commands()[1]}), Completed(ct.Cmd), cmds.ExecCmd)
			}
		}
	}

	var resp''', 'DoMultiCache (other stores) probes Commands()[1]'),
    ('p4-mget-probe-original-keys', 'pipe.go',
     '''		for _, key := range rewritten.Commands()[1 : keys+1] {
			multi = append(multi, builder.Pttl().Key(key).Build())''',
     '''		for _, key := range commands[1 : keys+1] {
			multi = append(multi, builder.Pttl().Key(key).Build())''', 'doCacheMGet probes the first keys of the original MGET'),
    ('p5-multi-static-any', 'pipe.go',
     '''	skipMultiExec := true
	for _, ct := range multi {
		if !cmds.IsStaticTTL(Completed(ct.Cmd)) {
			skipMultiExec = false
			break
		}
	}''',
     '''	skipMultiExec := false
	for _, ct := range multi {
		if cmds.IsStaticTTL(Completed(ct.Cmd)) {
			skipMultiExec = true
			break
		}
	}''', 'DoMultiCache takes the static path (no PTTL probe) when any command is tagged'),
    ('p6-docache-no-probe-for-scripts', 'pipe.go',
     '''	if cmds.IsStaticTTL(Completed(cmd)) {
		// Wire: [OPT_IN, cmd]. The read goroutine resolves the Flight''',
     '''	if cmds.IsStaticTTL(Completed(cmd)) || len(cmd.Commands()) > 3 {
		// Wire: [OPT_IN, cmd]. The read goroutine resolves the Flight''', 'DoCache sends long commands without MULTI/PTTL/EXEC (reply never filed: hangs or errors are acceptable catches)'),
]


def run_fill(name):
    os.environ.setdefault('VERIF_TIER', 'quick')
    ctx = vlib.Ctx('C07', 'quick', int(os.environ.get('VERIF_SEED', '1')), 'model_checking')
    scratch = tempfile.mkdtemp(prefix='verif-store-', dir=vlib.SCRATCH_ROOT)
    try:
        binp = vlib.build('storedrv')
        storecommon.judge_obs(ctx, scratch, [storecommon.fill_cases(ctx, binp, scratch, False)])
    except vlib.Inconclusive as e:
        ctx.inconclusive.append(str(e))
    finally:
        shutil.rmtree(scratch, ignore_errors=True)
    sigs = []
    for v in ctx.violations:
        if v['signature'] not in sigs:
            sigs.append(v['signature'])
    return sigs, ctx.inconclusive


def main():
    want = sys.argv[1:]
    for name, f, old, new, what in MUT:
        if want and name not in want:
            continue
        path = os.path.join(REPO, f)
        src = open(path).read()
        if src.count(old) != 1:
            print('%-32s NOT APPLICABLE (%d matches)' % (name, src.count(old)))
            continue
        open(path, 'w').write(src.replace(old, new))
        try:
            sigs, inc = run_fill(name)
        finally:
            subprocess.run(['git', 'checkout', '--', f], cwd=REPO, check=True)
        verdict = 'CAUGHT' if sigs else ('INCONCLUSIVE' if inc else 'MISSED')
        print('%-32s %s  %d signatures  (%s)' % (name, verdict, len(sigs), what))
        for s in sigs[:3]:
            print('      ' + s)
        for s in inc[:2]:
            print('      inconclusive: ' + s[:300])
    if not want:
        sigs, inc = run_fill('clean')
        print('%-32s %s' % ('clean tree', 'SILENT' if not sigs and not inc else 'NOISY %s %s' % (sigs[:3], inc[:2])))


main()
