#!/usr/bin/env python3
"""Mutation self-test of the add-on protocol checks (C30 C38 C41 C43).
usage: proposed/mutations_addons1.py [Cxx | mutation-name ...]      (run from $WS/verif; mutates $WS/repo one change at a time and
restores it with `git checkout -- .`; a mutation is KEPT (= caught) when `bin/check Cxx` exits 1)."""
import os, subprocess, sys

VERIF = os.path.dirname(os.path.dirname(os.path.abspath(__file__)))
REPO = os.path.normpath(os.path.join(VERIF, '..', 'repo'))

M = [
 # (property, name, file, old, new)
 ('C30', 'eval-after-any-error', 'lua.go',
  'isNoScript = isErr && err.IsNoScript()', 'isNoScript = isErr && err != nil'),
 ('C30', 'evalsha-for-nosha', 'lua.go',
  'if !noSha1 && !l.loadSha1 {\n\t\t// It', 'if !l.loadSha1 {\n\t\t// It'),   # + next entry applied together
 ('C30', 'script-load-every-time', 'lua.go',
  '\t\tif scriptSha1 == "" {\n\t\t\ts.sha1Mu.Lock()\n\t\t\tif s.sha1 == "" { // the double check',
  '\t\tif true {\n\t\t\ts.sha1Mu.Lock()\n\t\t\tif true { // the double check'),
 ('C30', 'ro-fallback-uses-eval', 'lua.go',
  'resp = c.Do(ctx, c.B().EvalRo().Script(s.script).Numkeys(int64(len(keys))).Key(keys...).Arg(args...).Build())',
  'resp = c.Do(ctx, c.B().Eval().Script(s.script).Numkeys(int64(len(keys))).Key(keys...).Arg(args...).Build())'),
 ('C30', 'execmulti-stale-sha-after-failed-load', 'lua.go',
  '\t\tif err := e.Load(); err != nil {\n\t\t\tresp = make([]RedisResult, len(multi))',
  '\t\tif err := e.Load(); err != nil && len(multi) > 1 {\n\t\t\tresp = make([]RedisResult, len(multi))'),
 ('C30', 'retryable-flag-dropped-on-eval-fallback', 'lua.go',
  'resp = c.Do(ctx, s.mayRetryable(c.B().Eval().Script(s.script)', 'resp = c.Do(ctx, (c.B().Eval().Script(s.script)'),
 ('C41', 'multi-appended-after-queue', 'rueidiscompat/tx.go',
  '\tfor i := len(cmds) - 2; i >= 1; i-- {', '\tfor i := len(cmds) - 2; i >= len(cmds); i-- {'),
 ('C41', 'exec-results-shifted', 'rueidiscompat/tx.go',
  'rets[i].from(rueidis.NewResult(r, resp[i+1].NonRedisError()))',
  'rets[(i+1)%len(rets)].from(rueidis.NewResult(r, resp[i+1].NonRedisError()))'),
 ('C41', 'txfailed-not-reported', 'rueidiscompat/tx.go',
  '\tif rueidis.IsRedisNil(err) {\n\t\terr = TxFailedErr', '\tif rueidis.IsRedisNil(err) {\n\t\terr = nil'),
 ('C41', 'discard-keeps-commands', 'rueidiscompat/pipeline.go',
  '\tp := c.comp.client.(*proxy)\n\tp.cmds = nil\n\tc.rets = nil\n}', '\tc.rets = nil\n}'),
 ('C41', 'pipeline-first-error-is-last', 'rueidiscompat/pipeline.go',
  '\t\trets[i].from(r)\n\n\t\tif err == nil {\n\t\t\terr = rets[i].Err()\n\t\t}',
  '\t\trets[i].from(r)\n\n\t\tif rets[i].Err() != nil {\n\t\t\terr = rets[i].Err()\n\t\t}'),
 ('C41', 'watch-leaks (the defect fixed by b1c2fc9)', 'rueidiscompat/adapter.go',
  '\tdefer dc.Do(ctx, dc.B().Unwatch().Build())\n', ''),
 ('C43', 'dedicated-receive-bypasses-hook', 'rueidishook/hook.go',
  'return d.hook.Receive(d.client, ctx, subscribe, fn)', 'return d.client.Receive(ctx, subscribe, fn)'),
 ('C43', 'domultistream-bypasses-hook', 'rueidishook/hook.go',
  'return c.hook.DoMultiStream(c.client, ctx, multi...)', 'return c.client.DoMultiStream(ctx, multi...)'),
 ('C43', 'nodes-not-rewrapped', 'rueidishook/hook.go',
  '\t\tnodes[addr] = &hookclient{client: client, hook: c.hook}', '\t\tnodes[addr] = client'),
 ('C43', 'dedicate-of-node-gets-outer-client', 'rueidishook/hook.go',
  '\tclient, cancel := c.client.Dedicate()\n\treturn &dedicated{client: &extended{DedicatedClient: client}, hook: c.hook}, cancel',
  '\tclient, cancel := c.client.Dedicate()\n\treturn client, cancel'),
 ('C43', 'hook-called-twice-on-docache', 'rueidishook/hook.go',
  '\treturn c.hook.DoCache(c.client, ctx, cmd, ttl)', '\tc.hook.DoCache(c.client, ctx, cmd, ttl)\n\treturn c.hook.DoCache(c.client, ctx, cmd, ttl)'),
 ('C38', 'incrby-before-window-reset', 'rueidislimiter/limiter.go',
  'local expires_at = tonumber(redis.call("get", expires_at_key))\n',
  'local expires_at = tonumber(redis.call("get", expires_at_key))\nlocal current = redis.call("incrby", rate_limit_key, increment_amount)\n'),
 ('C38', 'allowed-off-by-one', 'rueidislimiter/limiter.go',
  'allowed := current <= rl.limit && (n > 0 || current < rl.limit)', 'allowed := current <= rl.limit+1 && (n > 0 || current < rl.limit)'),
 ('C38', 'check-allowed-when-exhausted', 'rueidislimiter/limiter.go',
  'allowed := current <= rl.limit && (n > 0 || current < rl.limit)', 'allowed := current <= rl.limit'),
 ('C38', 'reset-does-not-zero-counter', 'rueidislimiter/limiter.go',
  'redis.call("set", rate_limit_key, 0, "pxat", next_expires_at + 1000)', 'redis.call("pexpireat", rate_limit_key, next_expires_at + 1000)'),
 ('C38', 'remaining-not-floored', 'rueidislimiter/limiter.go',
  'remaining := max(rl.limit-current, 0)', 'remaining := rl.limit - current'),
 ('C38', 'reset-at-from-client-clock', 'rueidislimiter/limiter.go',
  '\t\tResetAtMs: resetAt,', '\t\tResetAtMs: max(resetAt, now.Add(rl.window).UnixMilli()),'),
]

EXTRA = {  # second edit applied together with the named mutation
 'evalsha-for-nosha': ('lua.go', 'if !s.noSha1 && scriptSha1 != "" {\n\t\tif s.readonly {\n\t\t\tresp = c.Do(', 'if scriptSha1 != "" {\n\t\tif s.readonly {\n\t\t\tresp = c.Do('),
 'incrby-before-window-reset': ('rueidislimiter/limiter.go', 'local current = redis.call("incrby", rate_limit_key, increment_amount)\nreturn { current, expires_at }', 'return { current, expires_at }'),
}


def sh(cmd, cwd):
    return subprocess.run(cmd, cwd=cwd, stdout=subprocess.PIPE, stderr=subprocess.STDOUT, text=True)


def apply(path, old, new):
    p = os.path.join(REPO, path)
    s = open(p).read()
    if old not in s:
        return False
    open(p, 'w').write(s.replace(old, new, 1))
    return True


def main():
    want = set(a.upper() for a in sys.argv[1:] if len(a) == 3)
    names = set(a for a in sys.argv[1:] if len(a) != 3)
    results = []
    for pid, name, path, old, new in M:
        if (want or names) and pid not in want and name not in names:
            continue
        sh(['git', 'checkout', '--', '.'], REPO)
        ok = apply(path, old, new)
        if ok and name in EXTRA:
            ok = apply(*EXTRA[name])
        if not ok:
            results.append((pid, name, 'PATCH-DOES-NOT-APPLY', ''))
            continue
        mod = os.path.dirname(path) or '.'
        b = subprocess.run(['go1.26', 'build', './...'], cwd=os.path.join(REPO, mod), stdout=subprocess.PIPE, stderr=subprocess.STDOUT,
                           text=True, env=dict(os.environ, GOFLAGS='-mod=mod', GOPROXY='off', GOSUMDB='off', GOTOOLCHAIN='local'))
        if b.returncode != 0:
            results.append((pid, name, 'DOES-NOT-COMPILE', b.stdout[-300:]))
            continue
        os.environ['VERIF_ADDONS1_SKIP_MODEL'] = '1'   # model-only TLC runs cannot be affected by a change of the library
        r = sh([os.path.join(VERIF, 'bin', 'check'), pid], VERIF)
        sig = [l.strip() for l in r.stdout.splitlines() if l.strip().startswith('signature:')]
        verdict = {1: 'KEPT (caught)', 0: 'MISSED', 2: 'INCONCLUSIVE'}.get(r.returncode, 'exit %d' % r.returncode)
        results.append((pid, name, verdict, sig[0] if sig else r.stdout[-300:].replace('\n', ' | ')))
        print(pid, name, verdict, (sig[0] if sig else ''), flush=True)
    sh(['git', 'checkout', '--', '.'], REPO)
    print('\nSUMMARY')
    for r in results:
        print('%-4s %-45s %-22s %s' % r)


main()
